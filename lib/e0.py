"""Client for E0 (/verif/extract): rebuilds it against /repo's current working tree and keeps one
process alive for batched requests."""
import json, os, shutil, subprocess, sys, time

ROOT = os.path.abspath(os.path.join(os.path.dirname(__file__), '..'))
CRATE = os.path.join(ROOT, 'extract')
BIN = os.path.join(CRATE, 'target', 'debug', 'extract')
_built = [False]


def build(quiet=True):
    if _built[0] or os.environ.get('VERIF_E0_BUILT') == '1':
        return 0.0
    t = time.time()
    shutil.copyfile('/repo/Cargo.lock', os.path.join(CRATE, 'Cargo.lock'))
    env = dict(os.environ, CARGO_NET_OFFLINE='true')
    env.pop('RUSTFLAGS', None)
    r = subprocess.run(['cargo', 'build', '--offline', '--quiet'], cwd=CRATE, env=env,
                       stdout=subprocess.PIPE, stderr=subprocess.STDOUT, text=True)
    if r.returncode != 0:
        sys.stderr.write(r.stdout[-4000:])
        raise RuntimeError("E0: building the extract crate against /repo failed")
    _built[0] = True
    os.environ['VERIF_E0_BUILT'] = '1'
    return time.time() - t


class E0:
    def __init__(self):
        build()
        self.p = subprocess.Popen([BIN], stdin=subprocess.PIPE, stdout=subprocess.PIPE, text=True, bufsize=1)

    def req(self, obj):
        self.p.stdin.write(json.dumps(obj) + '\n')
        self.p.stdin.flush()
        line = self.p.stdout.readline()
        if not line:
            raise RuntimeError("E0 died")
        return json.loads(line)

    def close(self):
        try:
            self.p.stdin.close()
            self.p.wait(timeout=5)
        except Exception:
            self.p.kill()

    # -- conveniences
    def tempmap(self, backend, n):
        r = self.req({'cmd': 'tempmap', 'backend': backend, 'n': n})
        return r['temps']

    def fragment(self, backend, types, context, stmt):
        return self.req({'cmd': 'fragment', 'backend': backend, 'types': types, 'context': context, 'stmt': stmt})


_shared = [None]


def shared():
    if _shared[0] is None:
        _shared[0] = E0()
    return _shared[0]

"""Native execution of the emitted x86-64 routine (replay / model validation): NASM text -> GNU as (syntax-only
transliteration), linked with the real generated C driver and the real io.c, run with concrete arguments."""
import os, subprocess, tempfile, shutil
import gas


def build(asm_text, driver_c, io_c, workdir, name='prog'):
    ok, msg, obj = gas.assemble(asm_text, workdir, name)
    if not ok:
        return None, f"as: {msg}"
    exe = os.path.join(workdir, name)
    r = subprocess.run(['gcc', '-O0', '-o', exe, driver_c, io_c, obj], stdout=subprocess.PIPE, stderr=subprocess.STDOUT, text=True)
    if r.returncode != 0:
        return None, f"gcc: {r.stdout[-400:]}"
    return exe, None


def run(exe, args, timeout=20):
    try:
        r = subprocess.run([exe] + [str(a) for a in args], stdout=subprocess.PIPE, stderr=subprocess.PIPE, timeout=timeout)
    except subprocess.TimeoutExpired:
        return None, None
    return r.stdout, r.returncode

"""NASM (as printed by axcut2x86_64) -> GNU as, syntax only; used for replay (no nasm/yasm in the sandbox)."""
import re, subprocess, os, tempfile


def to_gas(text):
    out = ['.intel_syntax noprefix']
    for line in text.split('\n'):
        s = line.rstrip()
        t = s.strip()
        if not t:
            continue
        if t.startswith(';'):
            continue
        if t.startswith('section .note.GNU-stack'):
            out.append('.section .note.GNU-stack,"",@progbits')
            continue
        if t == 'section .text':
            out.append('.text')
            continue
        if t.startswith('extern '):
            continue
        if t.startswith('global '):
            out.append('.globl ' + t.split()[1])
            continue
        m = re.match(r'^jmp near (\S+)$', t)
        if m:
            # GNU as would shorten the jump; the table stride needs the 5-byte E9 rel32 form
            out.append(f"    .byte 0xe9\n    .long {m.group(1)} - . - 4")
            continue
        t = re.sub(r'\[rel (\S+)\]', r'[rip + \1]', t)
        t = t.replace('qword [', 'qword ptr [')
        out.append(('    ' + t) if not t.endswith(':') else t)
    return '\n'.join(out) + '\n'


def assemble(text, workdir=None, name='x'):
    """returns (ok, message, object path)"""
    d = workdir or tempfile.mkdtemp(prefix='gas_')
    src = os.path.join(d, name + '.s')
    obj = os.path.join(d, name + '.o')
    with open(src, 'w') as f:
        f.write(to_gas(text))
    r = subprocess.run(['as', '--64', src, '-o', obj], stdout=subprocess.PIPE, stderr=subprocess.STDOUT, text=True)
    return r.returncode == 0, r.stdout[-600:], obj

"""Common plumbing of the checks: tiers, seeds, worker pool, evidence files, known findings, replay files,
exit codes (0 = held, 1 = VIOLATION, 2 = inconclusive / machinery error)."""
import json, os, sys, time, hashlib, random, traceback
import multiprocessing as mp

ROOT = os.path.abspath(os.path.join(os.path.dirname(__file__), '..'))
EVID = os.path.join(ROOT, 'evidence')
REPLAYS = os.path.join(ROOT, 'replays')
KNOWN = os.path.join(ROOT, 'known_findings.json')


def tier():
    t = os.environ.get('VERIF_TIER', 'quick')
    return t if t in ('quick', 'thorough') else 'quick'


def seed():
    try:
        return int(os.environ.get('VERIF_SEED', '0'))
    except ValueError:
        return 0


def ncores():
    try:
        return int(os.environ.get('VERIF_JOBS', '0')) or min(16, os.cpu_count() or 4)
    except ValueError:
        return 16


def load_known():
    try:
        with open(KNOWN) as f:
            return json.load(f).get('findings', [])
    except FileNotFoundError:
        return []


class Check:
    def __init__(self, pid, level):
        self.pid = pid
        self.level = level
        self.t0 = time.time()
        self.violations = []      # (key, what, replay path)
        self.known_hits = []
        self.known_instances = {}
        self.inconclusive = []
        self.coverage = {}
        self.assumptions = []
        self.known = [k for k in load_known() if k.get('property') == pid]
        os.makedirs(EVID, exist_ok=True)
        os.makedirs(os.path.join(REPLAYS, pid), exist_ok=True)

    def replay_path(self, name):
        safe = ''.join(c if c.isalnum() or c in '-_.' else '_' for c in name)[:120]
        return os.path.join(REPLAYS, self.pid, safe + '.json')

    def report(self, key, what, replay_obj, instance=None):
        """a reproduced violation with role key `key`; `instance` names the failing input.  An open finding that lists its
        `instances` suppresses exactly those inputs: the same role on any other input is a violation"""
        for k in self.known:
            if k.get('status') == 'open' and k.get('key') == key:
                listed = k.get('instances')
                if listed is not None and instance is not None and instance not in listed and os.environ.get('VERIF_COLLECT_INSTANCES') != '1':
                    key = key + '/unlisted-input'
                    break
                if key not in [h[0] for h in self.known_hits]:
                    self.known_hits.append((key, k.get('what', what)))
                if instance is not None:
                    self.known_instances.setdefault(key, []).append(instance)
                return
        path = self.replay_path(key + '-' + hashlib.sha1(json.dumps(replay_obj, sort_keys=True, default=str).encode()).hexdigest()[:8])
        with open(path, 'w') as f:
            json.dump(replay_obj, f, indent=1, default=str)
        self.violations.append((key, what, path))

    def inconc(self, what):
        self.inconclusive.append(what)

    def finish(self):
        wall = time.time() - self.t0
        ev = {
            'property_id': self.pid, 'tier': tier(), 'seed': seed(), 'level': self.level,
            'coverage': self.coverage, 'assumptions': self.assumptions, 'wall_s': round(wall, 2),
            'violations': len(self.violations),
        }
        if self.known_hits:
            ev['coverage']['known_findings_reproduced'] = [k for k, _ in self.known_hits]
            ev['coverage']['known_finding_instances'] = {k: sorted(set(v)) for k, v in self.known_instances.items()}
        if self.inconclusive:
            ev['coverage']['inconclusive'] = self.inconclusive[:50]
        with open(os.path.join(EVID, self.pid + '.json'), 'w') as f:
            json.dump(ev, f, indent=1, default=str)
        for key, what in self.known_hits:
            print(f"KNOWN-FINDING: property={self.pid} {what}")
        if self.violations:
            seen = set()
            for key, what, path in self.violations:
                if key in seen:
                    continue
                seen.add(key)
                print(f"VIOLATION property={self.pid} replay={path}")
                print(f"  {key}: {what}")
            return 1
        if self.inconclusive:
            for w in self.inconclusive[:20]:
                print(f"INCONCLUSIVE {w}")
            return 2
        print(f"OK property={self.pid} tier={tier()} wall={wall:.1f}s")
        return 0


def _init_worker():
    import signal
    signal.signal(signal.SIGINT, signal.SIG_IGN)
    # a forked worker must not share the parent's E0 pipe
    try:
        import e0
        e0._shared[0] = None
    except Exception:
        pass


def _guard(args):
    fn, a = args
    try:
        return fn(a)
    except Exception as e:  # machinery error: reported as inconclusive, never as a pass
        return {'error': f"{type(e).__name__}: {e}", 'trace': traceback.format_exc()[-1500:], 'item': a}


def pmap(fn, items, jobs=None, order_seed=None, chunksize=1):
    """parallel map preserving the item in the result; items are shuffled by the seed so that a time-boxed
    run sees a different prefix"""
    items = list(items)
    if order_seed is not None:
        random.Random(order_seed).shuffle(items)
    jobs = jobs or ncores()
    if jobs <= 1 or len(items) <= 1:
        return [_guard((fn, a)) for a in items]
    ctx = mp.get_context('fork')
    with ctx.Pool(jobs, initializer=_init_worker) as pool:
        return list(pool.imap_unordered(_guard, [(fn, a) for a in items], chunksize))

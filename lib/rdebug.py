"""Parser for Rust `{:?}` output of the compiler's ASTs (all derive Debug), so that no serialiser has to be
written (or trusted) on the Rust side.
  Name { f: v, .. } -> Node(tag='Name', fields{...});   Name(a, b) -> Node(tag, args=[a, b]);   Name -> Sym
  [a, b] -> list;  (a, b) -> tuple;  {a, b} -> list (set);  {k: v} -> dict;  "s" -> str;  12 / -3 -> int;
  Some(x) -> x;  None -> None;  true/false -> bool"""
import re


class Node(dict):
    __slots__ = ('tag', 'args')

    def __init__(self, tag, fields=None, args=None):
        super().__init__(fields or {})
        self.tag = tag
        self.args = args or []

    def __repr__(self):
        return f"{self.tag}{dict(self) if len(self) else ''}{self.args if self.args else ''}"

    def __getattr__(self, k):
        try:
            return self[k]
        except KeyError:
            raise AttributeError(k)


TOK = re.compile(r'\s*(?:(?P<str>"(?:[^"\\]|\\.)*")|(?P<num>-?\d+)|(?P<id>[A-Za-z_][A-Za-z0-9_]*)|(?P<p>[{}()\[\],:]))')


def tokenize(s):
    pos, out = 0, []
    n = len(s)
    while pos < n:
        m = TOK.match(s, pos)
        if not m:
            if s[pos:].strip() == '':
                break
            raise ValueError(f"rdebug: cannot tokenize at {s[pos:pos + 40]!r}")
        pos = m.end()
        if m.group('str') is not None:
            out.append(('str', bytes(m.group('str')[1:-1], 'utf-8').decode('unicode_escape')))
        elif m.group('num') is not None:
            out.append(('num', int(m.group('num'))))
        elif m.group('id') is not None:
            out.append(('id', m.group('id')))
        else:
            out.append(('p', m.group('p')))
    return out


def parse(s):
    toks = tokenize(s)
    v, i = _val(toks, 0)
    if i != len(toks):
        raise ValueError("rdebug: trailing tokens")
    return v


def _val(t, i):
    k, v = t[i]
    if k == 'str' or k == 'num':
        return v, i + 1
    if k == 'id':
        if v == 'true':
            return True, i + 1
        if v == 'false':
            return False, i + 1
        if v == 'None':
            return None, i + 1
        if i + 1 < len(t) and t[i + 1] == ('p', '{'):
            # struct
            j = i + 2
            fields = {}
            while t[j] != ('p', '}'):
                name = t[j][1]
                assert t[j + 1] == ('p', ':'), t[j:j + 3]
                val, j = _val(t, j + 2)
                fields[name] = val
                if t[j] == ('p', ','):
                    j += 1
            return Node(v, fields), j + 1
        if i + 1 < len(t) and t[i + 1] == ('p', '('):
            j = i + 2
            args = []
            while t[j] != ('p', ')'):
                val, j = _val(t, j)
                args.append(val)
                if t[j] == ('p', ','):
                    j += 1
            if v == 'Some':
                return args[0], j + 1
            return Node(v, None, args), j + 1
        return Node(v), i + 1
    if (k, v) == ('p', '['):
        j = i + 1
        xs = []
        while t[j] != ('p', ']'):
            val, j = _val(t, j)
            xs.append(val)
            if t[j] == ('p', ','):
                j += 1
        return xs, j + 1
    if (k, v) == ('p', '('):
        j = i + 1
        xs = []
        while t[j] != ('p', ')'):
            val, j = _val(t, j)
            xs.append(val)
            if t[j] == ('p', ','):
                j += 1
        return tuple(xs), j + 1
    if (k, v) == ('p', '{'):
        j = i + 1
        xs, d, is_map = [], {}, False
        while t[j] != ('p', '}'):
            val, j = _val(t, j)
            if t[j] == ('p', ':'):
                is_map = True
                v2, j = _val(t, j + 1)
                d[val if not isinstance(val, (list, dict)) else repr(val)] = v2
            else:
                xs.append(val)
            if t[j] == ('p', ','):
                j += 1
        return (d if is_map else xs), j + 1
    raise ValueError(f"rdebug: unexpected token {t[i]}")

"""Native replay of an x86-64 statement fragment on the real CPU: the fragment (as emitted by the real code generator)
is transliterated to GNU as syntax, entered from a loader that installs the counterexample's registers, spill slots
and heap image (mmap at the model's heap base), and left through exit stubs that dump the machine state.  The dumped
state is compared with the exit state the SME predicted for the same input: agreement validates the ISA table on this
input, and the violated goal is then a fact about the real machine."""
import os, re, subprocess, tempfile, shutil, json
import gas

REGS = ['rax', 'rcx', 'rdx', 'rbx', 'rbp', 'rsi', 'rdi', 'r8', 'r9', 'r10', 'r11', 'r12', 'r13', 'r14', 'r15']
EXIT_TABLE = 'vp_exit_table'
POISON = 0xDEAD0000DEAD0000


def supported(lines):
    return True


def build_and_run(lines, regs, stack, heap_base, heap_words, exits, spill_bytes=2048, sym_values=None, timeout=10, loc_syms=None, entry=None):
    """lines: NASM text of the fragment; regs: {name: int}; stack: {offset rel. body sp: int}; heap_words: list of
    N lists of 8 ints; exits: external labels the fragment may jump to; sym_values: {model value: native symbol}
    (values of registers / slots / heap words equal to a model code address are replaced by the native address)."""
    work = tempfile.mkdtemp(prefix='fragnat_')
    try:
        text = gas.to_gas('\n'.join(lines))
        labels = re.findall(r'^([A-Za-z_.$][\w.$]*):', text, re.M)
        asm = ['.intel_syntax noprefix', '.text']
        for l in labels:
            asm.append(f'.globl {l}')
        asm.append('.globl vp_fragment_entry\nvp_fragment_entry:')
        asm.append('\n'.join(text.split('\n')[1:]))
        # exit stubs
        asm.append('.globl vp_run\n')
        for i, e in enumerate(exits):
            asm.append(f'{e}:\n    mov qword ptr [rip + vp_exit_id], {i}\n    jmp vp_save')
        # computed-jump landing table (for invoke): 16 fixed-size entries
        asm.append(f'.globl {EXIT_TABLE}\n{EXIT_TABLE}:')
        for i in range(16):
            asm.append(f'    .byte 0xe9\n    .long vp_tbl_{i} - . - 4')
        for i in range(16):
            asm.append(f'vp_tbl_{i}:\n    mov qword ptr [rip + vp_exit_id], {100 + i}\n    jmp vp_save')
        # print stubs: record the argument and the alignment of rsp, then clobber every caller-saved register
        for fn, code in (('print_i64', 1), ('println_i64', 2)):
            asm.append(f'.globl {fn}\n{fn}:')
            asm.append('    mov rax, [rip + vp_nevents]\n    lea rcx, [rip + vp_events]\n    shl rax, 5\n    add rcx, rax')
            asm.append(f'    mov qword ptr [rcx], {code}\n    mov [rcx + 8], rdi\n    mov [rcx + 16], rsp\n    add qword ptr [rip + vp_nevents], 1')
            for r in ('rax', 'rcx', 'rdx', 'rsi', 'rdi', 'r8', 'r9', 'r10', 'r11'):
                asm.append(f'    movabs {r}, {POISON}')
            # also scribble below rsp (the callee's frame)
            asm.append('    mov [rsp - 8], rax\n    mov [rsp - 16], rax\n    mov [rsp - 64], rax\n    cmp rax, 0\n    ret')
        # loader: vp_run(state*) ; state layout: 15 regs, then rsp
        asm.append('vp_run:\n    push rbx\n    push rbp\n    push r12\n    push r13\n    push r14\n    push r15\n    mov [rip + vp_saved_rsp], rsp')
        asm.append('    mov rsp, [rdi + 120]')
        for i, r in enumerate(REGS):
            if r != 'rdi':
                asm.append(f'    mov {r}, [rdi + {8 * i}]')
        asm.append(f'    mov rdi, [rdi + {8 * REGS.index("rdi")}]\n    jmp qword ptr [rip + vp_entry_addr]')
        asm.append('vp_save:\n    mov [rip + vp_out + 120], rsp')
        for i, r in enumerate(REGS):
            asm.append(f'    mov [rip + vp_out + {8 * i}], {r}')
        asm.append('    mov rsp, [rip + vp_saved_rsp]\n    pop r15\n    pop r14\n    pop r13\n    pop r12\n    pop rbp\n    pop rbx\n    ret')
        asm.append('.data\n.globl vp_out\nvp_out: .zero 128\n.globl vp_exit_id\nvp_exit_id: .quad -1\nvp_saved_rsp: .quad 0\n'
                   '.globl vp_nevents\nvp_nevents: .quad 0\n.globl vp_events\nvp_events: .zero 1024\n.globl vp_entry_addr\nvp_entry_addr: .quad 0')
        asm.append('.section .note.GNU-stack,"",@progbits')
        with open(os.path.join(work, 'frag.s'), 'w') as f:
            f.write('\n'.join(asm) + '\n')
        N = len(heap_words)
        sym_values = sym_values or {}

        def cval(v):
            if v in sym_values:
                return f"(uint64_t)&{sym_values[v]}"
            return f"{v & 0xFFFFFFFFFFFFFFFF}ULL"
        c = ['#include <stdint.h>', '#include <stdio.h>', '#include <string.h>', '#include <sys/mman.h>',
             'extern void vp_run(uint64_t *state); extern uint64_t vp_out[16]; extern int64_t vp_exit_id; extern uint64_t vp_nevents; extern uint64_t vp_events[128]; extern uint64_t vp_entry_addr; extern char vp_fragment_entry;']
        for l in set(labels) | {EXIT_TABLE}:
            c.append(f'extern char {l};')
        c.append('static uint64_t stackbuf[4096] __attribute__((aligned(64)));')
        c.append('int main(void) {')
        c.append(f'  uint64_t *heap = mmap((void*){heap_base}ULL, 8192, PROT_READ|PROT_WRITE, MAP_PRIVATE|MAP_ANONYMOUS|MAP_FIXED, -1, 0);')
        c.append('  if (heap == MAP_FAILED) { printf("MMAP_FAILED\\n"); return 2; }')
        for b in range(N):
            for w in range(8):
                if heap_words[b][w] != 0 or heap_words[b][w] in sym_values:
                    c.append(f'  heap[{8 * b + w}] = {cval(heap_words[b][w])};')
        # body sp: 8 mod 16, with room below (pushes, call frames) and the spill area above
        c.append('  uint64_t sp0 = (uint64_t)&stackbuf[2048]; sp0 &= ~15ULL; sp0 += 8;')
        loc_syms = loc_syms or {}
        for off, v in sorted(stack.items()):
            val = f"(uint64_t)&{loc_syms[('stk', off)]}" if ('stk', off) in loc_syms else cval(v)
            c.append(f'  *(uint64_t*)(sp0 + {off}) = {val};')
        c.append('  uint64_t state[16];')
        for i, r in enumerate(REGS):
            val = f"(uint64_t)&{loc_syms[('reg', r)]}" if ('reg', r) in loc_syms else cval(regs[r])
            c.append(f'  state[{i}] = {val};')
        c.append('  state[15] = sp0;')
        if entry is None:
            c.append('  vp_entry_addr = (uint64_t)&vp_fragment_entry;')
        else:
            c.append(f'  vp_entry_addr = (uint64_t)&{entry[0]} + {entry[1]};')
        c.append('  vp_run(state);')
        c.append('  printf("EXIT %lld\\n", (long long)vp_exit_id);')
        c.append('  printf("SPDELTA %lld\\n", (long long)(vp_out[15] - sp0));')
        for i, r in enumerate(REGS):
            c.append(f'  printf("REG {r} %llu\\n", (unsigned long long)vp_out[{i}]);')
        c.append(f'  for (int i = 0; i < {8 * N}; i++) printf("HEAP %d %llu\\n", i, (unsigned long long)heap[i]);')
        c.append(f'  for (int o = 0; o < {spill_bytes}; o += 8) printf("STACK %d %llu\\n", o, (unsigned long long)*(uint64_t*)(sp0 + o));')
        c.append('  for (uint64_t i = 0; i < vp_nevents; i++) printf("EVENT %llu %llu %llu\\n", (unsigned long long)vp_events[4*i], (unsigned long long)vp_events[4*i+1], (unsigned long long)(vp_events[4*i+2] & 15));')
        for l in set(labels) | {EXIT_TABLE}:
            c.append(f'  printf("SYM {l} %llu\\n", (unsigned long long)(uint64_t)&{l});')
        c.append('  return 0; }')
        with open(os.path.join(work, 'main.c'), 'w') as f:
            f.write('\n'.join(c) + '\n')
        exe = os.path.join(work, 'frag')
        r = subprocess.run(['gcc', '-O0', '-no-pie', '-o', exe, os.path.join(work, 'main.c'), os.path.join(work, 'frag.s')],
                           stdout=subprocess.PIPE, stderr=subprocess.STDOUT, text=True)
        if r.returncode != 0:
            return {'error': 'build: ' + r.stdout[-600:]}
        try:
            r = subprocess.run([exe], stdout=subprocess.PIPE, stderr=subprocess.PIPE, text=True, timeout=timeout)
        except subprocess.TimeoutExpired:
            return {'error': 'timeout'}
        if r.returncode != 0:
            return {'crashed': True, 'returncode': r.returncode, 'stdout': r.stdout[-300:]}
        out = {'regs': {}, 'heap': {}, 'stack': {}, 'events': [], 'syms': {}}
        for line in r.stdout.split('\n'):
            p = line.split()
            if not p:
                continue
            if p[0] == 'EXIT':
                out['exit_id'] = int(p[1])
            elif p[0] == 'SPDELTA':
                out['spdelta'] = int(p[1])
            elif p[0] == 'REG':
                out['regs'][p[1]] = int(p[2])
            elif p[0] == 'HEAP':
                out['heap'][int(p[1])] = int(p[2])
            elif p[0] == 'STACK':
                out['stack'][int(p[1])] = int(p[2])
            elif p[0] == 'EVENT':
                out['events'].append((int(p[1]), int(p[2]), int(p[3])))
            elif p[0] == 'SYM':
                out['syms'][p[1]] = int(p[2])
        return out
    finally:
        shutil.rmtree(work, ignore_errors=True)

"""Hybrid 64-bit values: a value is either a Python int (always kept in [0, 2^64)) or a z3
BitVec(64) term.  Conditions are Python bools or z3 BoolRefs.  Keeping concrete values as ints
matters for the whole-program runs (concrete-layout mode), where only integer *data* is symbolic."""
import z3

M64 = (1 << 64) - 1
SIGN = 1 << 63


def is_c(v):
    return isinstance(v, int)


def to_s(v):
    """unsigned -> signed python int"""
    return v - (1 << 64) if v & SIGN else v


def bv(v, w=64):
    if isinstance(v, int):
        return z3.BitVecVal(v & ((1 << w) - 1), w)
    return v


def norm(v):
    if isinstance(v, int):
        return v & M64
    if z3.is_bv_value(v):
        return v.as_long()
    return v


def simp(v):
    if isinstance(v, int):
        return v & M64
    v = z3.simplify(v)
    if z3.is_bv_value(v):
        return v.as_long()
    return v


def add(a, b):
    if is_c(a) and is_c(b):
        return (a + b) & M64
    if is_c(a) and a == 0:
        return b
    if is_c(b) and b == 0:
        return a
    return bv(a) + bv(b)


def sub(a, b):
    if is_c(a) and is_c(b):
        return (a - b) & M64
    if is_c(b) and b == 0:
        return a
    return bv(a) - bv(b)


def mul(a, b):
    if is_c(a) and is_c(b):
        return (a * b) & M64
    return bv(a) * bv(b)


# Division lemma: symbolic quotients / remainders are abstracted to fresh values q, r (memoised per operand
# pair, so the code side and the spec side get the same terms) linked by the true fact a = q*b + r.
# Sound: whatever is proved holds for every function pair satisfying the lemma, in particular bvsdiv/bvsrem.
_div_memo = {}
div_axioms = []


def reset_div():
    _div_memo.clear()
    del div_axioms[:]


def div_hints():
    """under-approximating hints for queries expected SATISFIABLE (vacuity / reachability witnesses): divisor 1 makes the
    64-bit multiplication of the lemma trivial.  A model found with the hints is a model without them."""
    return [bv(b) == 1 for (_q, _r, _a, b) in _div_memo.values() if not is_c(b)]


def _qr(a, b):
    k = (a if is_c(a) else ('t', a.get_id()), b if is_c(b) else ('t', b.get_id()))
    if k not in _div_memo:
        q, r = fresh('quot'), fresh('rem')
        _div_memo[k] = (q, r, a, b)
        A, B = bv(a), bv(b)
        div_axioms.append(A == q * B + r)
        ab = lambda x: z3.If(x < 0, -x, x)
        # truncating division: the remainder is smaller in magnitude than the divisor and has the dividend's sign
        div_axioms.append(z3.Implies(B != 0, z3.And(z3.ULT(ab(r), ab(B)), z3.Or(r == 0, (r < 0) == (A < 0)))))
    return _div_memo[k][0], _div_memo[k][1]


def sdiv(a, b):
    """truncating signed division (caller guarantees b != 0 and not MIN/-1 where relevant)"""
    if not (is_c(a) and is_c(b)):
        return _qr(a, b)[0]
    if is_c(a) and is_c(b):
        sa, sb = to_s(a), to_s(b)
        if sb == 0:
            return 0
        q = abs(sa) // abs(sb)
        if (sa < 0) != (sb < 0):
            q = -q
        return q & M64
    return bv(a) / bv(b)  # z3 '/' on BitVecs is bvsdiv


def srem(a, b):
    if not (is_c(a) and is_c(b)):
        return _qr(a, b)[1]
    if is_c(a) and is_c(b):
        sa, sb = to_s(a), to_s(b)
        if sb == 0:
            return 0
        r = abs(sa) % abs(sb)
        if sa < 0:
            r = -r
        return r & M64
    return z3.SRem(bv(a), bv(b))


def b_and(*cs):
    out = []
    for c in cs:
        if c is True:
            continue
        if c is False:
            return False
        out.append(c)
    if not out:
        return True
    if len(out) == 1:
        return out[0]
    return z3.And(*out)


def b_or(*cs):
    out = []
    for c in cs:
        if c is False:
            continue
        if c is True:
            return True
        out.append(c)
    if not out:
        return False
    if len(out) == 1:
        return out[0]
    return z3.Or(*out)


def b_not(c):
    if c is True:
        return False
    if c is False:
        return True
    return z3.Not(c)


def eq(a, b):
    if is_c(a) and is_c(b):
        return a == b
    if not is_c(a) and not is_c(b) and a.eq(b):
        return True
    return bv(a) == bv(b)


def ne(a, b):
    return b_not(eq(a, b))


def slt(a, b):
    if is_c(a) and is_c(b):
        return to_s(a) < to_s(b)
    return bv(a) < bv(b)


def sle(a, b):
    if is_c(a) and is_c(b):
        return to_s(a) <= to_s(b)
    return bv(a) <= bv(b)


def ult(a, b):
    if is_c(a) and is_c(b):
        return a < b
    return z3.ULT(bv(a), bv(b))


def ule(a, b):
    if is_c(a) and is_c(b):
        return a <= b
    return z3.ULE(bv(a), bv(b))


def same(a, b):
    """structural identity (cheap)"""
    if is_c(a) or is_c(b):
        return is_c(a) and is_c(b) and a == b
    return a.eq(b)


def ite(c, a, b):
    if c is True:
        return a
    if c is False:
        return b
    if same(a, b):
        return a
    return z3.If(c, bv(a), bv(b))


def b_ite(c, a, b):
    if c is True:
        return a
    if c is False:
        return b
    if a is True and b is False:
        return c
    if a is False and b is True:
        return z3.Not(c)
    return z3.If(c, bb(a), bb(b))


def bb(c):
    if isinstance(c, bool):
        return z3.BoolVal(c)
    return c


_fresh = [0]


def fresh(prefix="u", w=64):
    _fresh[0] += 1
    return z3.BitVec(f"{prefix}!{_fresh[0]}", w)


def fresh_bool(prefix="ub"):
    _fresh[0] += 1
    return z3.Bool(f"{prefix}!{_fresh[0]}")

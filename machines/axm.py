"""AxM - abstract machines for AxCut, written from its rules.
  * named:      environment = finite map; a call binds exactly the callee's parameters.
  * positional: environment = ordered list; every statement demands exactly the list the back ends assume
                (call: callee parameters; invoke: arguments then closure; let: rest then arguments; switch: rest then
                scrutinee; create: rest then captured environment), position by position in kind and type;
                `substitute` is the only rule that duplicates, drops or reorders.  A mismatch raises Inexact."""
import sys, os
sys.path.insert(0, os.path.dirname(__file__))
from symrun import *  # noqa
import rdebug
from funm import Bounce, trampoline, Halt, unwrap
from corem import ident


class Inexact(Stuck):
    """the environment is not exactly what the statement expects (violation of the linear discipline)"""


class Prog:
    def __init__(self, node):
        self.defs = {}
        self.dups = []
        for d in node['defs']:
            k = ident(d['name'])
            if k in self.defs:
                self.dups.append(k)
            self.defs[k] = d
        self.order = [ident(d['name']) for d in node['defs']]
        self.types = {ident(t['name']): t for t in node['types']}
        self.main = self.order[0] if self.order else None


def want_int(v):
    if v[0] != 'int':
        raise Stuck(f"expected an integer, got {v[0]}")
    return v[1]


def tykey(ty):
    return 'i64' if ty.tag == 'I64' else ident(ty.args[0])


def clauses_in_declaration_order(prog, ty, clauses, what):
    """the back ends dispatch by POSITION (tag = index in the declaration, jump table in clause order): a (co)match must
    list exactly the declared xtors in declaration order"""
    t = prog.types.get(tykey(ty))
    if t is None:
        return
    want = [ident(x['name']) for x in t['xtors']]
    have = [ident(c['xtor']) for c in clauses]
    if want != have:
        raise Stuck(f"{what}: clauses {[h[0] for h in have]} are not the declared xtors in declaration order {[w[0] for w in want]}")


def value_fits(prog, b, v):
    """does the run-time value v inhabit the declared kind / type of the binding b"""
    k = tykey(b['ty'])
    if k == 'i64':
        return v[0] == 'int' if b['chi'].tag == 'Ext' else v[0] != 'int'
    t = prog.types.get(k)
    if t is None:
        return True
    names = {ident(x['name']) for x in t['xtors']}
    if v[0] == 'int':
        return False
    if v[0] == 'obj':
        return v[1] in names
    if v[0] == 'clo':
        return {ident(c["xtor"]) for c in v[1]} <= names
    return True


# ------------------------------------------------------------------ named

def run_named(prog, args, ctx, entry=None):
    d = prog.defs[entry or prog.main]
    if prog.dups:
        raise Stuck(f"definition defined twice: {prog.dups}")
    bs = d['context']['bindings']
    if len(bs) != len(args):
        raise Stuck(f"entry takes {len(bs)} parameters")
    env = {ident(b['var']): (a if isinstance(a, tuple) else ('int', a)) for b, a in zip(bs, args)}
    r = trampoline(nstmt(prog, ctx, d['body'], env), ctx)
    if not isinstance(r, Halt):
        raise Stuck(f"machine ended with {r}")
    return want_int(r.v)


def nlook(env, k):
    v = env.get(k)
    if v is None:
        raise Stuck(f"unbound variable {k[0]}_{k[1]}")
    return v


def nstmt(prog, ctx, s, env):
    s = unwrap(s)
    tag = s.tag
    if tag == 'Literal':
        env2 = dict(env)
        env2[ident(s['var'])] = ('int', s['lit'] & M64)
        return Bounce(lambda: nstmt(prog, ctx, s['next'], env2))
    if tag == 'Op':
        a, b = want_int(nlook(env, ident(s['fst']))), want_int(nlook(env, ident(s['snd'])))
        env2 = dict(env)
        env2[ident(s['var'])] = ('int', norm(ctx.arith(s['op'].tag, a, b)))
        return Bounce(lambda: nstmt(prog, ctx, s['next'], env2))
    if tag == 'PrintI64':
        ctx.emit('print', bool(s['newline']), want_int(nlook(env, ident(s['var']))))
        return Bounce(lambda: nstmt(prog, ctx, s['next'], env))
    if tag == 'IfC':
        a = want_int(nlook(env, ident(s['fst'])))
        b = want_int(nlook(env, ident(s['snd']))) if s['snd'] is not None else 0
        c = ctx.compare(s['sort'].tag, a, b)
        return Bounce(lambda: nstmt(prog, ctx, s['thenc'] if c else s['elsec'], env))
    if tag == 'Exit':
        return Halt(nlook(env, ident(s['var'])))
    if tag == 'Let':
        vals = [nlook(env, ident(b['var'])) for b in s['args']['bindings']]
        env2 = dict(env)
        env2[ident(s['var'])] = ('obj', ident(s['tag']), vals)
        return Bounce(lambda: nstmt(prog, ctx, s['next'], env2))
    if tag == 'Switch':
        clauses_in_declaration_order(prog, s['ty'], s['clauses'], f"switch {s['var']['name']}")
        v = nlook(env, ident(s['var']))
        if v[0] != 'obj':
            raise Stuck(f"switch on {v[0]}")
        for c in s['clauses']:
            if ident(c['xtor']) == v[1]:
                bs = c['context']['bindings']
                if len(bs) != len(v[2]):
                    raise Stuck("clause arity")
                env2 = dict(env)
                for b, x in zip(bs, v[2]):
                    env2[ident(b['var'])] = x
                return Bounce(lambda: nstmt(prog, ctx, c['body'], env2))
        raise Stuck(f"no clause for {v[1][0]}")
    if tag == 'Create':
        clauses_in_declaration_order(prog, s['ty'], s['clauses'], f"create {s['var']['name']}")
        env2 = dict(env)
        env2[ident(s['var'])] = ('clo', s['clauses'], dict(env))
        return Bounce(lambda: nstmt(prog, ctx, s['next'], env2))
    if tag == 'Invoke':
        v = nlook(env, ident(s['var']))
        if v[0] != 'clo':
            raise Stuck(f"invoke on {v[0]}")
        vals = [nlook(env, ident(b['var'])) for b in s['args']['bindings']]
        for c in v[1]:
            if ident(c['xtor']) == ident(s['tag']):
                bs = c['context']['bindings']
                if len(bs) != len(vals):
                    raise Stuck("method arity")
                env2 = dict(v[2])
                for b, x in zip(bs, vals):
                    env2[ident(b['var'])] = x
                return Bounce(lambda: nstmt(prog, ctx, c['body'], env2))
        raise Stuck(f"no method {s['tag']['name']}")
    if tag == 'Call':
        d = prog.defs.get(ident(s['label']))
        if d is None:
            raise Stuck(f"call of unknown definition {s['label']['name']}")
        bs = d['context']['bindings']
        vals = [nlook(env, ident(b['var'])) for b in s['args']['bindings']]
        if len(bs) != len(vals):
            raise Stuck(f"call of {s['label']['name']} with {len(vals)} arguments, {len(bs)} expected")
        # well-typedness of the call (the precondition of every later stage): the annotation of each argument and the
        # value it holds agree with the callee's signature
        for b, a, x in zip(bs, s['args']['bindings'], vals):
            if chi_of(a) != chi_of(b) or tykey(a['ty']) != tykey(b['ty']):
                raise Stuck(f"ill-typed call of {s['label']['name']}: argument {a['var']['name']} is annotated differently from parameter {b['var']['name']}")
            if not value_fits(prog, b, x):
                raise Stuck(f"ill-typed call of {s['label']['name']}: the value of {a['var']['name']} is not of the type of parameter {b['var']['name']}")
        env2 = {ident(b['var']): x for b, x in zip(bs, vals)}     # exactly the parameters, nothing else
        return Bounce(lambda: nstmt(prog, ctx, d['body'], env2))
    if tag == 'Substitute':
        env2 = {}
        for newb, old in s['rearrange']:
            env2[ident(newb['var'])] = nlook(env, ident(old))
        return Bounce(lambda: nstmt(prog, ctx, s['next'], env2))
    raise Stuck(f"AxM: no rule for {tag}")


# ------------------------------------------------------------------ positional (exact environments)

def chi_of(b):
    return b['chi'].tag


def kind_of_value(v):
    return 'Ext' if v[0] == 'int' else ('Prd' if v[0] == 'obj' else 'Cns')


def run_positional(prog, args, ctx, entry=None):
    d = prog.defs[entry or prog.main]
    if prog.dups:
        raise Stuck(f"definition defined twice: {prog.dups}")
    bs = d['context']['bindings']
    if len(bs) != len(args):
        raise Stuck(f"entry takes {len(bs)} parameters")
    env = [(ident(b['var']), chi_of(b), tykey(b['ty']), (a if isinstance(a, tuple) else ('int', a))) for b, a in zip(bs, args)]
    r = trampoline(pstmt(prog, ctx, d['body'], env), ctx)
    if not isinstance(r, Halt):
        raise Stuck(f"machine ended with {r}")
    return want_int(r.v)


def plook(env, k, what):
    for e in env:
        if e[0] == k:
            return e
    raise Inexact(f"{what}: variable {k[0]}_{k[1]} is not in the environment {[x[0][0] + '_' + str(x[0][1]) for x in env]}")


def expect_suffix(env, bindings, what):
    n = len(bindings)
    if n > len(env):
        raise Inexact(f"{what}: environment shorter than the expected suffix")
    suf = env[len(env) - n:]
    for e, b in zip(suf, bindings):
        if e[0] != ident(b['var']) or e[1] != chi_of(b) or e[2] != tykey(b['ty']):
            raise Inexact(f"{what}: environment position holds {e[0][0]}_{e[0][1]}:{e[1]} but {b['var']['name']}_{b['var']['id']}:{chi_of(b)} is expected")
    return env[:len(env) - n], suf


def names_distinct(env, what):
    ks = [e[0] for e in env]
    if len(set(ks)) != len(ks):
        raise Inexact(f"{what}: a variable occurs twice in the environment")


def pstmt(prog, ctx, s, env, rec=None):
    rec = rec or pstmt
    s = unwrap(s)
    tag = s.tag
    names_distinct(env, tag)
    if tag == 'Literal':
        env2 = env + [(ident(s['var']), 'Ext', 'i64', ('int', s['lit'] & M64))]
        return Bounce(lambda: rec(prog, ctx, s['next'], env2))
    if tag == 'Op':
        a = plook(env, ident(s['fst']), 'op')
        b = plook(env, ident(s['snd']), 'op')
        v = ('int', norm(ctx.arith(s['op'].tag, want_int(a[3]), want_int(b[3]))))
        env2 = env + [(ident(s['var']), 'Ext', 'i64', v)]        # operands remain available afterwards
        return Bounce(lambda: rec(prog, ctx, s['next'], env2))
    if tag == 'PrintI64':
        a = plook(env, ident(s['var']), 'print')
        ctx.emit('print', bool(s['newline']), want_int(a[3]))
        return Bounce(lambda: rec(prog, ctx, s['next'], env))
    if tag == 'IfC':
        a = want_int(plook(env, ident(s['fst']), 'if')[3])
        b = want_int(plook(env, ident(s['snd']), 'if')[3]) if s['snd'] is not None else 0
        c = ctx.compare(s['sort'].tag, a, b)
        return Bounce(lambda: rec(prog, ctx, s['thenc'] if c else s['elsec'], env))
    if tag == 'Exit':
        return Halt(plook(env, ident(s['var']), 'exit')[3])
    if tag == 'Let':
        rest, suf = expect_suffix(env, s['args']['bindings'], f"let {s['var']['name']}")
        decl = prog.types.get(tykey(s['ty']))
        if decl is None:
            raise Stuck(f"unknown type {tykey(s['ty'])}")
        sig = [x for x in decl['xtors'] if ident(x['name']) == ident(s['tag'])]
        if not sig:
            raise Stuck(f"constructor {s['tag']['name']} not in its type")
        sb = sig[0]['args']['bindings']
        if len(sb) != len(suf) or any(chi_of(x) != e[1] or tykey(x['ty']) != e[2] for x, e in zip(sb, suf)):
            raise Inexact(f"let {s['var']['name']}: arguments do not match the constructor's signature in kind and type")
        v = ('obj', ident(s['tag']), [e[3] for e in suf], [(e[1], e[2]) for e in suf])
        env2 = rest + [(ident(s['var']), 'Prd', tykey(s['ty']), v)]
        return Bounce(lambda: rec(prog, ctx, s['next'], env2))
    if tag == 'Switch':
        if not env or env[-1][0] != ident(s['var']):
            raise Inexact(f"switch {s['var']['name']}: the scrutinee is not the last variable of the environment")
        v = env[-1][3]
        rest = env[:-1]
        if v[0] != 'obj':
            raise Stuck(f"switch on {v[0]}")
        for c in s['clauses']:
            if ident(c['xtor']) == v[1]:
                bs = c['context']['bindings']
                if len(bs) != len(v[2]):
                    raise Stuck("clause arity")
                for b, kt in zip(bs, v[3]):
                    if (chi_of(b), tykey(b['ty'])) != kt:
                        raise Inexact(f"switch {s['var']['name']}: clause binding {b['var']['name']} differs in kind or type from the stored field")
                env2 = rest + [(ident(b['var']), chi_of(b), tykey(b['ty']), x) for b, x in zip(bs, v[2])]
                return Bounce(lambda: rec(prog, ctx, c['body'], env2))
        raise Stuck(f"no clause for {v[1][0]}")
    if tag == 'Create':
        if s['context'] is None:
            raise Inexact(f"create {s['var']['name']}: closure environment is not annotated")
        rest, suf = expect_suffix(env, s['context']['bindings'], f"create {s['var']['name']}")
        v = ('clo', s['clauses'], [(e[0], e[1], e[2], e[3]) for e in suf], tykey(s['ty']))
        env2 = rest + [(ident(s['var']), 'Cns', tykey(s['ty']), v)]
        return Bounce(lambda: rec(prog, ctx, s['next'], env2))
    if tag == 'Invoke':
        if not env or env[-1][0] != ident(s['var']):
            raise Inexact(f"invoke {s['var']['name']}: the closure is not the last variable of the environment")
        v = env[-1][3]
        argsenv = env[:-1]
        if v[0] != 'clo':
            raise Stuck(f"invoke on {v[0]}")
        for c in v[1]:
            if ident(c['xtor']) == ident(s['tag']):
                bs = c['context']['bindings']
                if len(bs) != len(argsenv):
                    raise Inexact(f"invoke {s['var']['name']}.{s['tag']['name']}: {len(argsenv)} variables precede the closure, the method takes {len(bs)}")
                for b, e in zip(bs, argsenv):
                    if chi_of(b) != e[1] or tykey(b['ty']) != e[2]:
                        raise Inexact(f"invoke {s['var']['name']}.{s['tag']['name']}: argument position differs in kind or type")
                env2 = [(ident(b['var']), chi_of(b), tykey(b['ty']), e[3]) for b, e in zip(bs, argsenv)] + list(v[2])
                return Bounce(lambda: rec(prog, ctx, c['body'], env2))
        raise Stuck(f"no method {s['tag']['name']}")
    if tag == 'Call':
        d = prog.defs.get(ident(s['label']))
        if d is None:
            raise Stuck(f"call of unknown definition {s['label']['name']}")
        bs = d['context']['bindings']
        if len(bs) != len(env):
            raise Inexact(f"call {s['label']['name']}: environment has {len(env)} variables, the callee takes {len(bs)}")
        for b, e in zip(bs, env):
            if chi_of(b) != e[1] or tykey(b['ty']) != e[2]:
                raise Inexact(f"call {s['label']['name']}: position of {b['var']['name']} differs in kind or type")
        env2 = [(ident(b['var']), chi_of(b), tykey(b['ty']), e[3]) for b, e in zip(bs, env)]
        return Bounce(lambda: rec(prog, ctx, d['body'], env2))
    if tag == 'Substitute':
        env2 = []
        for newb, old in s['rearrange']:
            e = plook(env, ident(old), 'substitute')
            if chi_of(newb) != e[1] or tykey(newb['ty']) != e[2]:
                raise Inexact(f"substitute: {newb['var']['name']} := {old['name']} changes kind or type")
            env2.append((ident(newb['var']), e[1], e[2], e[3]))
        return Bounce(lambda: rec(prog, ctx, s['next'], env2))
    raise Stuck(f"AxM: no rule for {tag}")


# ------------------------------------------------------------------ per-definition mode (exactness on every path)

def opaque_of(prog, chi, ty, ctx, depth=0):
    """an arbitrary value of the given kind and type: integers are fresh symbols, objects have an undetermined
    constructor (a switch forks into every clause), closures are opaque (an invoke ends the path)"""
    if chi == 'Ext':
        return ('int', fresh('pd'))
    if chi == 'Prd':
        return ('opq_obj', ty)
    return ('opq_clo', ty)


def run_definition(prog, name, ctx):
    """walk one definition of a linearised program from an arbitrary environment of its parameter types; calls and
    invokes of opaque closures end the path after their environment has been checked"""
    d = prog.defs[name]
    env = [(ident(b['var']), chi_of(b), tykey(b['ty']), opaque_of(prog, chi_of(b), tykey(b['ty']), ctx)) for b in d['context']['bindings']]
    r = trampoline(pstmt_pd(prog, ctx, d['body'], env), ctx)
    return 0


def pstmt_pd(prog, ctx, s, env):
    s0 = unwrap(s)
    tag = s0.tag
    names_distinct(env, tag)
    if tag == 'Switch':
        if not env or env[-1][0] != ident(s0['var']):
            raise Inexact(f"switch {s0['var']['name']}: the scrutinee is not the last variable of the environment")
        v = env[-1][3]
        if v[0] == 'opq_obj':
            decl = prog.types.get(v[1])
            if decl is None:
                raise Stuck(f"unknown type {v[1]}")
            clauses = s0['clauses']
            if len(clauses) != len(decl['xtors']):
                raise Inexact(f"switch {s0['var']['name']}: {len(clauses)} clauses for a type with {len(decl['xtors'])} constructors")
            # choose a clause: a chain of free boolean decisions
            idx = 0
            while idx < len(clauses) - 1 and not ctx.decide(fresh_bool('clause')):
                idx += 1
            c = clauses[idx]
            sig = [x for x in decl['xtors'] if ident(x['name']) == ident(c['xtor'])]
            if not sig:
                raise Inexact(f"switch {s0['var']['name']}: clause {c['xtor']['name']} is not a constructor of the type")
            sb, bs = sig[0]['args']['bindings'], c['context']['bindings']
            if len(sb) != len(bs) or any(chi_of(x) != chi_of(y) or tykey(x['ty']) != tykey(y['ty']) for x, y in zip(sb, bs)):
                raise Inexact(f"switch {s0['var']['name']}: clause {c['xtor']['name']} does not match the constructor's signature")
            env2 = env[:-1] + [(ident(b['var']), chi_of(b), tykey(b['ty']), opaque_of(prog, chi_of(b), tykey(b['ty']), ctx)) for b in bs]
            return Bounce(lambda: pstmt_pd(prog, ctx, c['body'], env2))
    if tag == 'Invoke':
        if not env or env[-1][0] != ident(s0['var']):
            raise Inexact(f"invoke {s0['var']['name']}: the closure is not the last variable of the environment")
        v = env[-1][3]
        if v[0] == 'opq_clo':
            decl = prog.types.get(v[1])
            sig = [x for x in (decl['xtors'] if decl else []) if ident(x['name']) == ident(s0['tag'])]
            if not sig:
                raise Inexact(f"invoke {s0['var']['name']}.{s0['tag']['name']}: not a destructor of the closure's type")
            sb = sig[0]['args']['bindings']
            argsenv = env[:-1]
            if len(sb) != len(argsenv) or any(chi_of(x) != e[1] or tykey(x['ty']) != e[2] for x, e in zip(sb, argsenv)):
                raise Inexact(f"invoke {s0['var']['name']}.{s0['tag']['name']}: the variables before the closure do not match the destructor's signature")
            return Halt(('int', 0))
    if tag == 'Call':
        d = prog.defs.get(ident(s0['label']))
        if d is None:
            raise Stuck(f"call of unknown definition {s0['label']['name']}")
        bs = d['context']['bindings']
        if len(bs) != len(env) or any(chi_of(b) != e[1] or tykey(b['ty']) != e[2] for b, e in zip(bs, env)):
            raise Inexact(f"call {s0['label']['name']}: the environment is not the callee's parameter list")
        return Halt(('int', 0))
    if tag == 'Exit':
        plook(env, ident(s0['var']), 'exit')
        return Halt(('int', 0))
    # every other statement: the ordinary positional rule, continuing in per-definition mode
    return pstmt(prog, ctx, s, env, rec=pstmt_pd)

"""FunM - the source semantics of Fun as a CEK-style machine (written from the property statement, not from
the compiler): 64-bit wrapping arithmetic, truncating division, left-to-right eager evaluation of integers and
data, codata by name (a codata-typed let binds a thunk evaluated at each use), first-class labels, immediate
termination on exit.  Variables and labels share one namespace; the innermost binding wins."""
import sys, os
sys.path.insert(0, os.path.dirname(__file__))
from symrun import *  # noqa
import rdebug


class Bounce:
    __slots__ = ('f',)

    def __init__(self, f):
        self.f = f


def trampoline(b, ctx):
    while isinstance(b, Bounce):
        ctx.tick()
        b = b.f()
    return b


class Prog:
    def __init__(self, node):
        self.defs = {d['name']: d for d in node['defs']}
        self.order = [d['name'] for d in node['defs']]
        self.codata = {c['name'].split('[')[0] for c in node['codata_types']}
        self.data = {c['name'].split('[')[0] for c in node['data_types']}

    def is_codata(self, ty):
        return ty is not None and ty.tag == 'Decl' and ty['name'] in self.codata


def unwrap(t):
    """Term enum wrapper: Case(Case {..}) -> the inner struct"""
    if isinstance(t, rdebug.Node) and t.args and isinstance(t.args[0], rdebug.Node) and not len(t):
        return t.args[0]
    return t


class Halt:
    def __init__(self, v):
        self.v = v


def run_main(prog, args, ctx):
    d = prog.defs.get('main')
    if d is None:
        raise Stuck("no main")
    params = d['context']['bindings']
    env = {}
    for b, a in zip(params, args):
        env[b['var']] = ('int', a)
    r = trampoline(ev(prog, ctx, d['body'], env, lambda v: Halt(v)), ctx)
    if not isinstance(r, Halt):
        raise Stuck(f"machine ended with {r}")
    return as_int(r.v)


def as_int(v):
    if v[0] != 'int':
        raise Stuck(f"expected an integer, got {v[0]}")
    return v[1]


def force(prog, ctx, v, k):
    if v[0] == 'thunk':
        return Bounce(lambda: ev(prog, ctx, v[1], v[2], lambda w: force(prog, ctx, w, k)))
    return Bounce(lambda: k(v))


def ev_args(prog, ctx, entries, env, k, acc=None, i=0):
    """left to right; codata-typed arguments are passed by name, covariable arguments as continuations"""
    acc = acc or []
    if i == len(entries):
        return Bounce(lambda: k(acc))
    t = unwrap(entries[i])
    if t.tag == 'XVar' and t['chi'].tag == 'Cns':
        v = env.get(t['var'])
        if v is None:
            raise Stuck(f"unbound covariable {t['var']}")
        return Bounce(lambda: ev_args(prog, ctx, entries, env, k, acc + [v], i + 1))
    ty = term_type(t)
    if prog.is_codata(ty) and not (t.tag == 'XVar'):
        th = ('thunk', entries[i], env)
        return Bounce(lambda: ev_args(prog, ctx, entries, env, k, acc + [th], i + 1))
    return Bounce(lambda: ev(prog, ctx, entries[i], env, lambda v: ev_args(prog, ctx, entries, env, k, acc + [v], i + 1),
                             force_thunk=not prog.is_codata(ty)))


def term_type(t):
    t = unwrap(t)
    if t.tag == 'Lit' or t.tag == 'Op':
        return rdebug.Node('I64')
    if t.tag == 'Paren':
        return term_type(t['inner'])
    if t.tag == 'Call':
        return t.get('ret_ty')
    if t.tag == 'Let':
        return t.get('ty')
    return t.get('ty')


def ev(prog, ctx, term, env, k, force_thunk=True):
    t = unwrap(term)
    tag = t.tag
    if tag == 'Lit':
        return Bounce(lambda: k(('int', t['lit'] & M64)))
    if tag == 'XVar':
        v = env.get(t['var'])
        if v is None:
            raise Stuck(f"unbound variable {t['var']}")
        if v[0] == 'thunk' and force_thunk:
            return force(prog, ctx, v, k)
        return Bounce(lambda: k(v))
    if tag == 'Paren':
        return Bounce(lambda: ev(prog, ctx, t['inner'], env, k))
    if tag == 'Op':
        op = t['op'].tag
        return Bounce(lambda: ev(prog, ctx, t['fst'], env, lambda a: ev(prog, ctx, t['snd'], env,
                      lambda b: k(('int', norm(ctx.arith(op, as_int(a), as_int(b))))))))
    if tag == 'IfC':
        sort = t['sort'].tag

        def after_fst(a):
            if t['snd'] is None:
                c = ctx.compare(sort, as_int(a), 0)
                return ev(prog, ctx, t['thenc'] if c else t['elsec'], env, k)
            return ev(prog, ctx, t['snd'], env,
                      lambda b: ev(prog, ctx, t['thenc'] if ctx.compare(sort, as_int(a), as_int(b)) else t['elsec'], env, k))
        return Bounce(lambda: ev(prog, ctx, t['fst'], env, after_fst))
    if tag == 'Let':
        x = t['variable']
        if prog.is_codata(t['var_ty']):
            env2 = dict(env)
            env2[x] = ('thunk', t['bound_term'], env)
            return Bounce(lambda: ev(prog, ctx, t['in_term'], env2, k))

        def bound(v):
            env2 = dict(env)
            env2[x] = v
            return ev(prog, ctx, t['in_term'], env2, k)
        return Bounce(lambda: ev(prog, ctx, t['bound_term'], env, bound))
    if tag == 'Call':
        d = prog.defs.get(t['name'])
        if d is None:
            raise Stuck(f"unknown definition {t['name']}")

        def go(vals):
            params = d['context']['bindings']
            if len(params) != len(vals):
                raise Stuck(f"call of {t['name']} with {len(vals)} arguments")
            env2 = {b['var']: v for b, v in zip(params, vals)}
            return ev(prog, ctx, d['body'], env2, k)
        return Bounce(lambda: ev_args(prog, ctx, t['args']['entries'], env, go))
    if tag == 'Constructor':
        return Bounce(lambda: ev_args(prog, ctx, t['args']['entries'], env, lambda vals: k(('con', t['id'], vals))))
    if tag == 'Case':
        def scrut(v):
            if v[0] != 'con':
                raise Stuck(f"case on {v[0]}")
            for c in t['clauses']:
                if c['xtor'] == v[1]:
                    names = c['context_names']['bindings']
                    if len(names) != len(v[2]):
                        raise Stuck("clause arity")
                    env2 = dict(env)
                    for n_, a in zip(names, v[2]):
                        env2[n_] = a
                    return ev(prog, ctx, c['body'], env2, k)
            raise Stuck(f"no clause for {v[1]}")
        return Bounce(lambda: ev(prog, ctx, t['scrutinee'], env, scrut))
    if tag == 'New':
        return Bounce(lambda: k(('clo', t['clauses'], env)))
    if tag == 'Destructor':
        def scrut(v):
            if v[0] != 'clo':
                raise Stuck(f"destructor on {v[0]}")

            def go(vals):
                for c in v[1]:
                    if c['xtor'] == t['id']:
                        names = c['context_names']['bindings']
                        if len(names) != len(vals):
                            raise Stuck("destructor arity")
                        env2 = dict(v[2])
                        for n_, a in zip(names, vals):
                            env2[n_] = a
                        return ev(prog, ctx, c['body'], env2, k)
                raise Stuck(f"no clause for {t['id']}")
            return ev_args(prog, ctx, t['args']['entries'], env, go)
        return Bounce(lambda: ev(prog, ctx, t['scrutinee'], env, scrut))
    if tag == 'Label':
        env2 = dict(env)
        env2[t['label']] = ('cont', k)
        return Bounce(lambda: ev(prog, ctx, t['term'], env2, k))
    if tag == 'Goto':
        c = env.get(t['target'])
        if c is None or c[0] != 'cont':
            raise Stuck(f"goto to {t['target']} which is not a label")
        return Bounce(lambda: ev(prog, ctx, t['term'], env, c[1]))
    if tag == 'PrintI64':
        def after(v):
            ctx.emit('print', bool(t['newline']), as_int(v))
            return ev(prog, ctx, t['next'], env, k)
        return Bounce(lambda: ev(prog, ctx, t['arg'], env, after))
    if tag == 'Exit':
        return Bounce(lambda: ev(prog, ctx, t['arg'], env, lambda v: Halt(v)))
    raise Stuck(f"FunM: no rule for {tag}")

"""Product check of two machines on one program: symbolic arguments, every path pair, solver-decided equality
of the observable traces (print events, then the result)."""
import sys, os
sys.path.insert(0, os.path.dirname(__file__))
import z3
from symrun import *  # noqa
import bv as bvmod


def trace_diff(ea, va, eb, vb, result_bits=64):
    """condition under which two traces differ; True if they differ structurally"""
    if len(ea) != len(eb):
        return True
    conds = []
    for x, y in zip(ea, eb):
        if x[0] != y[0] or x[1] != y[1]:
            return True
        conds.append(ne(x[2], y[2]))
    if result_bits == 64:
        conds.append(ne(va, vb))
    else:
        m = (1 << result_bits) - 1
        a = (va & m) if is_c(va) else (bvmod.bv(va) & m)
        b = (vb & m) if is_c(vb) else (bvmod.bv(vb) & m)
        conds.append(ne(a, b))
    return b_or(*conds)


def model_args(m, args):
    return [m.eval(a, model_completion=True).as_long() for a in args]


def concrete_run(run, vals, max_steps):
    bvmod.reset_div()
    s = Solver()
    res = list(explore(lambda ctx: run(vals, ctx), s, [], max_steps, 4))
    return res[0] if res else None


def show_trace(p):
    if p is None:
        return None
    return {'status': p.status, 'events': [(e[0], e[1], to_s(e[2]) if is_c(e[2]) else str(e[2])) for e in p.events],
            'result': (to_s(p.value) if is_c(p.value) else str(p.value)) if p.value is not None else None, 'note': p.note}


def product(runA, runB, nargs, max_steps=20000, max_paths=64, result_bits=64, timeout_ms=3000, time_budget=60.0):
    """returns dict: pairs, cut, undefined, violations [..], inconclusive [..], queries, solver_s"""
    bvmod.reset_div()
    solver = Solver(timeout_ms)
    args = [z3.BitVec(f"arg{i + 1}", 64) for i in range(nargs)]
    out = {'pairs': 0, 'paths_a': 0, 'cut': 0, 'undefined': 0, 'violations': [], 'inconclusive': [], 'steps': 0}
    import time as _t
    deadline = _t.time() + time_budget
    for pa in explore(lambda ctx: runA(args, ctx), solver, [], max_steps, max_paths, deadline):
        out['paths_a'] += 1
        out['steps'] += pa.steps
        if pa.status == 'undefined':
            out['undefined'] += 1
            continue
        if pa.status == 'cutoff':
            out['cut'] += 1
            continue
        if pa.status == 'stuck':
            out['inconclusive'].append(f"reference machine stuck: {pa.note}")
            continue
        for pb in explore(lambda ctx: runB(args, ctx), solver, pa.pc, max_steps, max_paths, deadline):
            out['steps'] += pb.steps
            if pb.status == 'cutoff':
                out['cut'] += 1
                continue
            out['pairs'] += 1
            if pb.status in ('stuck', 'undefined'):
                ok, m = solver.sat(pb.pc)
                if ok:
                    out['violations'].append({'kind': pb.status, 'note': pb.note, 'args': model_args(m, args)})
                elif ok is None:
                    out['inconclusive'].append(f"{pb.status}: {pb.note} (feasibility unknown)")
                continue
            d = trace_diff(pa.events, pa.value, pb.events, pb.value, result_bits)
            if d is False:
                continue
            ok, m = solver.sat(pb.pc + ([d] if d is not True else []))
            if ok is None:
                out['inconclusive'].append("trace comparison: solver gave no verdict")
            elif ok:
                out['violations'].append({'kind': 'trace', 'args': model_args(m, args)})
    out['queries'] = solver.queries
    out['solver_s'] = round(solver.secs, 3)
    if solver.unknown:
        out['inconclusive'].append(f"{solver.unknown} solver queries returned unknown")
    return out


def confirm(runA, runB, vals, max_steps, result_bits=64):
    """replay a counterexample concretely on both machines; returns (reproduced, detail)"""
    vals = [v & M64 for v in vals]
    pa = concrete_run(runA, vals, max_steps)
    pb = concrete_run(runB, vals, max_steps)
    detail = {'args': [to_s(v) for v in vals], 'reference': show_trace(pa), 'compiled': show_trace(pb)}
    if pa is None or pb is None or pa.status != 'done':
        return False, detail
    if pb.status != 'done':
        if pb.status == 'cutoff' and 'steps' in (pb.note or '') and pb.steps >= 2000 * max(pa.steps, 50):
            # the reference finishes after pa.steps rule applications, the compiled program is still running after more
            # than 2000 times as many steps (one rule application compiles to tens of instructions): bounded divergence
            detail['divergence'] = {'reference_steps': pa.steps, 'compiled_steps': pb.steps}
            return True, detail
        return pb.status in ('stuck', 'undefined'), detail
    d = trace_diff(pa.events, pa.value, pb.events, pb.value, result_bits)
    return (d is True), detail

"""Whole-program symbolic execution of the printed routine of any of the three back ends (concrete-layout mode of
the SME): heap, stack and code at fixed addresses, only integer data symbolic, branches fork through the decision context.
Contracts taken from C20: argv[i] -> parameter i (C driver + prologue), print_i64(v) writes the decimal text of v,
the exit status is the low 8 bits of the result."""
import sys, os
sys.path.insert(0, os.path.dirname(__file__))
sys.path.insert(0, os.path.join(os.path.dirname(__file__), '..', 'sme'))
from symrun import *  # noqa
import core, x86, a64, rv64
import z3

ISAS = {'x86_64': x86, 'aarch64': a64, 'rv64': rv64}

HEAP = 0x10000000
HEAP_SIZE = 32 * 1024 * 1024
CODE = 0x400000
SPACING = 256


class PEnv:
    def __init__(self, ctx, prog, isa=x86):
        self.ctx = ctx
        self.prog = prog
        self.isa = isa
        self.sp_class = 8 if isa is x86 else 0
        self.stack_hi = 0
        self.ncalls = 0
        self.notes = []
        self._stack_init = {}
        self.addr = {}
        self.idx_of = {}
        for name, idx in prog.labels.items():
            a = CODE + SPACING * prog.labels[prog.canon[name]]
            self.addr[name] = a
            self.idx_of[a] = prog.labels[prog.canon[name]]
        for name, ents in prog.tables.items():
            if len(ents) * isa.FIXED_JUMP_SIZE >= SPACING:
                raise Stuck("jump table too large for the layout model")
            for j, idx in enumerate(ents):
                self.idx_of[self.addr[name] + isa.FIXED_JUMP_SIZE * j] = idx

    def fault(self, reason, cond):
        if cond is False:
            return
        if cond is True or self.ctx.decide(cond):
            raise Stuck(f"machine fault: {reason}")

    def stack_init(self, off):
        if off not in self._stack_init:
            self._stack_init[off] = fresh(f"stk_{off & 0xFFFFFF}")
        return self._stack_init[off]

    def label_addr_for(self, name):
        if name not in self.addr:
            raise Stuck(f"address of undefined label {name}")
        return self.addr[name]


class PState(core.State):
    def __init__(self, env):
        super().__init__(env)
        self.heap = {}
        self.top = HEAP          # highest heap address written (for the footprint statistics)

    def _addr(self, base, off, what):
        base = simp(base)
        if not is_c(base):
            raise Stuck(f"{what} through a pointer that depends on input data")
        a = (base + off) & M64
        if not (HEAP <= a < HEAP + HEAP_SIZE) or a % 8:
            raise Stuck(f"{what} outside the heap at {a:#x}")
        return a

    def heap_load(self, base, off):
        return self.heap.get(self._addr(base, off, 'load'), 0)

    def heap_store(self, base, off, v):
        a = self._addr(base, off, 'store')
        self.heap[a] = norm(v)
        if a > self.top:
            self.top = a


def run(text, args, ctx, stats=None, isa_name='x86_64', param_regs=None):
    isa = ISAS[isa_name]
    prog = core.Program(isa, text.split('\n'))
    if prog.dups:
        raise Stuck(f"label defined twice: {prog.dups}")
    if prog.enc_errors:
        raise Stuck(f"unencodable instruction: {prog.enc_errors[0]}")
    env = PEnv(ctx, prog, isa)
    st = PState(env)
    for r in isa.REGS:
        st.regs[r] = fresh('entry_' + r)
    if isa_name == 'rv64':
        # no prologue: started at the first label with heap and free pointers initialised as on the other back ends,
        # main's parameters in the second temporaries of the first positions (param_regs, from the real tempmap)
        st.regs[isa.HEAP_REG] = HEAP
        st.regs[isa.FREE_REG] = HEAP + 64
        for r, a in zip(param_regs or [], args):
            st.regs[r] = a
        i = min(prog.labels.values()) if prog.labels else 0
        entry_callee = {}
    else:
        st.regs[isa.ARG_REGS[0]] = HEAP
        if len(args) > len(isa.ARG_REGS) - 1:
            raise Stuck("too many parameters")
        for r, a in zip(isa.ARG_REGS[1:], args):
            st.regs[r] = a
        entry_callee = {r: st.regs[r] for r in isa.CALLEE_SAVED}
        if isa_name == 'aarch64':
            entry_callee['X30'] = st.regs['X30']
        if 'asm_main' not in prog.labels:
            raise Stuck("no asm_main")
        i = prog.labels['asm_main']
    n = len(prog.ins)
    seen_events = 0
    while True:
        ctx.tick()
        if i >= n:
            if isa_name == 'rv64' and prog.labels.get('cleanup') is not None:
                if stats is not None:
                    stats['heap_top_blocks'] = (st.top - HEAP) // 64 + 1
                return st.regs[isa.RET_REG]
            raise Stuck("execution ran past the end of the text")
        ins = prog.ins[i]
        eff = isa.step(st, ins)
        while seen_events < len(st.events):
            fn, v = st.events[seen_events]
            seen_events += 1
            if fn not in ('print_i64', 'println_i64'):
                raise Stuck(f"call of unknown external {fn}")
            ctx.emit('print', fn == 'println_i64', v)
        k = eff[0]
        if k == 'next':
            i += 1
        elif k == 'jmp':
            if eff[1] not in prog.labels:
                raise Stuck(f"jump to undefined label {eff[1]}")
            i = prog.labels[eff[1]]
        elif k == 'cjmp':
            if ctx.decide(eff[1]):
                if eff[2] not in prog.labels:
                    raise Stuck(f"jump to undefined label {eff[2]}")
                i = prog.labels[eff[2]]
            else:
                i += 1
        elif k == 'ijmp':
            t = simp(eff[1])
            if not is_c(t):
                raise Stuck("computed jump through an address that depends on input data")
            if t not in env.idx_of:
                raise Stuck(f"computed jump to {t:#x}, which is neither a label nor a jump-table entry")
            i = env.idx_of[t]
        elif k == 'ret':
            if st.spd != 0:
                raise Stuck(f"ret with sp = entry sp {st.spd:+d}")
            for r, v in entry_callee.items():
                if not same(st.regs[r], v):
                    raise Stuck(f"callee-saved register {r} not restored")
            if stats is not None:
                stats['heap_top_blocks'] = (st.top - HEAP) // 64 + 1
            return st.regs[isa.RET_REG]
        else:
            raise Stuck(f"unknown effect {k}")

"""Decision-driven symbolic exploration shared by all abstract machines.

A machine is a deterministic function of (program, symbolic inputs, sequence of branch decisions).  `explore`
re-executes it depth-first: when the recorded decisions run out at a branch whose outcome the path condition
does not decide, the solver is asked which outcomes are feasible; one is followed, the other queued."""
import os, sys, time
sys.path.insert(0, os.path.join(os.path.dirname(__file__), '..', 'lib'))
import z3
import bv as bvmod
from bv import *  # noqa


class CutOff(Exception):
    """step or fork budget exhausted: the path is outside the claim"""


class Undefined(Exception):
    """the source semantics is undefined on this path (division by zero, overflowing division)"""


class Stuck(Exception):
    """the machine has no rule for this state: for a compiled program that is a violation"""


class Finished(Exception):
    def __init__(self, value):
        self.value = value


class Solver:
    def __init__(self, timeout_ms=20000):
        self.s = z3.Solver()
        self.s.set('timeout', timeout_ms)
        self.timeout_ms = timeout_ms
        self.queries = 0
        self.secs = 0.0
        self.unknown = 0

    def sat(self, conds):
        self.queries += 1
        self.s.push()
        for c in conds:
            self.s.add(bb(c))
        for a in bvmod.div_axioms:
            self.s.add(a)
        t = time.time()
        r = self.s.check()
        self.secs += time.time() - t
        m = self.s.model() if r == z3.sat else None
        if r == z3.unknown:
            # the per-query limit is short (seconds); one retry in a fresh solver with ten times the limit and another seed
            s2 = z3.Solver()
            s2.set('timeout', int(min(max(10 * self.timeout_ms, 20000), 120000)))
            s2.set('random_seed', 7)
            for a in self.s.assertions():
                s2.add(a)
            t = time.time()
            r = s2.check()
            self.secs += time.time() - t
            m = s2.model() if r == z3.sat else None
        self.s.pop()
        if r == z3.unknown:
            self.unknown += 1
            return None, None
        return r == z3.sat, m


class Ctx:
    def __init__(self, solver, pc0, decisions, max_steps, deadline=None):
        self.deadline = deadline
        self.solver = solver
        self.pc = list(pc0)
        self.decisions = list(decisions)
        self.i = 0
        self.alternatives = []
        self.events = []
        self.steps = 0
        self.max_steps = max_steps
        self.notes = []

    def tick(self, n=1):
        self.steps += n
        if self.steps > self.max_steps:
            raise CutOff(f"more than {self.max_steps} steps")
        if self.deadline is not None and (self.steps & 255) == 0 and time.time() > self.deadline:
            raise CutOff("time budget of the program exhausted")

    def decide(self, cond):
        if cond is True or cond is False:
            return cond
        c = z3.simplify(bb(cond))
        if z3.is_true(c):
            return True
        if z3.is_false(c):
            return False
        if self.i < len(self.decisions):
            d = self.decisions[self.i]
            self.i += 1
            self.pc.append(c if d else z3.Not(c))
            return d
        if self.deadline is not None and time.time() > self.deadline:
            raise CutOff("time budget of the program exhausted")
        t, _ = self.solver.sat(self.pc + [c])
        f, _ = self.solver.sat(self.pc + [z3.Not(c)])
        if t is None or f is None:
            raise CutOff("solver could not decide the feasibility of a branch")
        if t and f:
            self.alternatives.append(self.decisions[:self.i] + [False])
            d = True
        elif t:
            d = True
        elif f:
            d = False
        else:
            raise CutOff("path condition became unsatisfiable")
        self.decisions.append(d)
        self.i += 1
        self.pc.append(c if d else z3.Not(c))
        return d

    def emit(self, *ev):
        self.events.append(tuple(ev))

    # arithmetic with the property's definedness condition
    def arith(self, op, a, b):
        if op in ('Div', 'Rem', 'div', 'rem'):
            if self.decide(eq(b, 0)):
                raise Undefined("division by zero")
            if self.decide(b_and(eq(a, SIGN), eq(b, M64))):
                raise Undefined("overflowing division")
            return sdiv(a, b) if op in ('Div', 'div') else srem(a, b)
        return {'Sum': add, 'sum': add, 'Sub': sub, 'sub': sub, 'Prod': mul, 'prod': mul}[op](a, b)

    def compare(self, sort, a, b):
        f = {'Equal': eq, 'NotEqual': ne, 'Less': slt, 'LessOrEqual': sle,
             'Greater': lambda x, y: slt(y, x), 'GreaterOrEqual': lambda x, y: sle(y, x)}[sort]
        return self.decide(f(a, b))


class PathResult:
    def __init__(self, status, events, value, pc, decisions, steps, note=None):
        self.status, self.events, self.value, self.pc, self.decisions, self.steps, self.note = status, events, value, pc, decisions, steps, note


def explore(run, solver, pc0, max_steps, max_paths, deadline=None):
    """run(ctx) -> final value (or raises).  Yields PathResult for every explored path."""
    work = [[]]
    n = 0
    while work:
        if n >= max_paths:
            yield PathResult('cutoff', [], None, list(pc0), [], 0, f"fork budget of {max_paths} paths exhausted ({len(work)} prefixes pending)")
            return
        if deadline is not None and time.time() > deadline:
            yield PathResult('cutoff', [], None, list(pc0), [], 0, f"time budget exhausted ({len(work)} prefixes pending)")
            return
        dec = work.pop()
        ctx = Ctx(solver, pc0, dec, max_steps, deadline)
        n += 1
        try:
            v = run(ctx)
            res = PathResult('done', ctx.events, v, ctx.pc, ctx.decisions, ctx.steps)
        except Finished as e:
            res = PathResult('done', ctx.events, e.value, ctx.pc, ctx.decisions, ctx.steps)
        except Undefined as e:
            res = PathResult('undefined', ctx.events, None, ctx.pc, ctx.decisions, ctx.steps, str(e))
        except CutOff as e:
            res = PathResult('cutoff', ctx.events, None, ctx.pc, ctx.decisions, ctx.steps, str(e))
        except Stuck as e:
            res = PathResult('stuck', ctx.events, None, ctx.pc, ctx.decisions, ctx.steps, str(e))
        except RecursionError:
            res = PathResult('cutoff', ctx.events, None, ctx.pc, ctx.decisions, ctx.steps, "python recursion limit")
        work.extend(ctx.alternatives)
        yield res

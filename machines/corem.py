"""CoreM - environment machine for the lambda-mu-mu~ core language, written from the calculus' rules:
  * a cut at i64 / data type evaluates the producer first (mu before mu~), at codata type the consumer first;
  * <K(v..) | case{..}> and <cocase{..} | D(v..)> select a clause;
  * non-variable arguments of xtors, calls, operators, if, print, exit are evaluated innermost-first, left to
    right: integers and data to values, codata-typed producers by name (re-evaluated at each use).
Runs both the unfocused `Prog` and the focused `FsProg` (where arguments are already variables)."""
import sys, os
sys.path.insert(0, os.path.dirname(__file__))
from symrun import *  # noqa
import rdebug
from funm import Bounce, trampoline, Halt, unwrap


def ident(n):
    return (n['name'], n['id'])


# Core keeps variables and covariables apart (an occurrence says by its chirality which one it is), so a variable and a
# covariable may carry the same name (`label k { let k: i64 = ..; .. }` compiles to `mu k. <.. | mutilde k. <.. | k>>`):
# the environment has two name spaces
def kp(n):
    return ('p', n['name'], n['id'])


def kc(n):
    return ('c', n['name'], n['id'])


def kb(b):
    return kp(b['var']) if b['chi'].tag == 'Prd' else kc(b['var'])


class Prog:
    def __init__(self, node):
        self.defs = {}
        self.dups = []
        for d in node['defs']:
            k = ident(d['name'])
            if k in self.defs:
                self.dups.append(k)
            self.defs[k] = d
        self.order = [ident(d['name']) for d in node['defs']]
        self.codata = {ident(c['name']) for c in node['codata_types']}
        self.data = {ident(c['name']) for c in node['data_types']}
        self.xtors = {ident(c['name']): {ident(x['name']) for x in c['xtors']} for c in list(node['codata_types']) + list(node['data_types'])}

    def cbn(self, ty):
        return ty.tag == 'Decl' and ident(ty.args[0]) in self.codata


def run_main(prog, args, ctx):
    key = ('main', 0)
    d = prog.defs.get(key)
    if d is None:
        raise Stuck("no main")
    if prog.dups:
        raise Stuck(f"definition defined twice: {prog.dups}")
    env = {}
    bs = d['context']['bindings']
    if len(bs) != len(args):
        raise Stuck(f"main takes {len(bs)} parameters")
    for b, a in zip(bs, args):
        env[kb(b)] = ('int', a)
    r = trampoline(stmt(prog, ctx, d['body'], env), ctx)
    if not isinstance(r, Halt):
        raise Stuck(f"machine ended with {r}")
    if r.v[0] != 'int':
        raise Stuck("exit with a non-integer")
    return r.v[1]


def value_fits(prog, b, v):
    """does the run-time value v inhabit the declared chirality / type of the parameter binding b"""
    ty = b['ty']
    prd = b['chi'].tag == 'Prd'
    if ty.tag == 'I64':
        if prd:
            return v[0] == 'int'
        return v[0] in ('meta', 'mutilde')
    names = prog.xtors.get(ident(ty.args[0]))
    if names is None:
        return True
    if prd:
        if v[0] == 'con':
            return v[1] in names
        if v[0] == 'cocase':
            return {ident(c["xtor"]) for c in v[1]} <= names
        if v[0] == 'pthunk':
            t = term_ty(v[1])
            return t.tag == 'Decl' and ident(t.args[0]) == ident(ty.args[0])
        return False
    if v[0] == 'case':
        return {ident(c["xtor"]) for c in v[1]} <= names
    if v[0] == 'dtor':
        return v[1] in names
    return v[0] in ('meta', 'mutilde')


def lookup(env, k):
    v = env.get(k)
    if v is None:
        raise Stuck(f"unbound {'variable' if k[0] == 'p' else 'covariable'} {k[1]}_{k[2]}")
    return v


def term_ty(t):
    t = unwrap(t)
    if t.tag in ('Literal', 'Op'):
        return rdebug.Node('I64')
    return t['ty']


def is_ident(x):
    return isinstance(x, rdebug.Node) and x.tag == 'Identifier'


def prd_value(prog, ctx, t, env, k):
    """evaluate a producer of i64 / data type to a value (dynamic focusing); codata producers are passed by name"""
    if is_ident(t):                         # focused form: operands are identifiers
        return Bounce(lambda: k(lookup(env, kp(t))))
    t = unwrap(t)
    tag = t.tag
    if tag == 'Literal':
        return Bounce(lambda: k(('int', t['lit'] & M64)))
    if tag == 'XVar':
        return Bounce(lambda: k(lookup(env, kp(t['var']))))
    if tag == 'Op':
        op = t['op'].tag
        return Bounce(lambda: prd_value(prog, ctx, t['fst'], env, lambda a: prd_value(prog, ctx, t['snd'], env,
                      lambda b: k(('int', norm(ctx.arith(op, want_int(a), want_int(b))))))))
    if tag == 'XCase':
        return Bounce(lambda: k(('cocase', t['clauses'], env)))
    if prog.cbn(t['ty']):
        return Bounce(lambda: k(('pthunk', t, env)))
    if tag == 'Xtor':
        return Bounce(lambda: args_values(prog, ctx, t['args'], env, lambda vs: k(('con', ident(t['name']), vs))))
    if tag == 'Mu':
        env2 = dict(env)
        env2[kc(t['variable'])] = ('meta', k)
        return Bounce(lambda: stmt(prog, ctx, t['statement'], env2))
    raise Stuck(f"CoreM: cannot evaluate producer {tag}")


def want_int(v):
    if v[0] != 'int':
        raise Stuck(f"expected an integer, got {v[0]}")
    return v[1]


def cns_value(prog, ctx, t, env, k):
    """runtime value of a consumer term; destructor arguments are evaluated first (left to right)"""
    t = unwrap(t)
    tag = t.tag
    if tag == 'XVar':
        return Bounce(lambda: k(lookup(env, kc(t['var']))))
    if tag == 'Mu':
        return Bounce(lambda: k(('mutilde', kp(t['variable']), t['statement'], env)))
    if tag == 'XCase':
        return Bounce(lambda: k(('case', t['clauses'], env)))
    if tag == 'Xtor':
        return Bounce(lambda: args_values(prog, ctx, t['args'], env, lambda vs: k(('dtor', ident(t['name']), vs))))
    raise Stuck(f"CoreM: no consumer value for {tag}")


def args_values(prog, ctx, args, env, k, acc=None, i=0):
    if args.tag == 'TypingContext':         # focused form: a list of variable bindings
        vals = [lookup(env, kb(b)) for b in args['bindings']]
        return Bounce(lambda: k(vals))
    entries = args['entries']
    acc = acc or []
    if i == len(entries):
        return Bounce(lambda: k(acc))
    e = entries[i]
    nxt = lambda v: args_values(prog, ctx, args, env, k, acc + [v], i + 1)
    if e.tag == 'Producer':
        return Bounce(lambda: prd_value(prog, ctx, e.args[0], env, nxt))
    return Bounce(lambda: cns_value(prog, ctx, e.args[0], env, nxt))


def bind_clause(clauses, name, vals, env):
    for c in clauses:
        if ident(c['xtor']) == name:
            bs = c['context']['bindings']
            if len(bs) != len(vals):
                raise Stuck(f"clause {name[0]} binds {len(bs)} variables, got {len(vals)} arguments")
            env2 = dict(env)
            for b, v in zip(bs, vals):
                env2[kb(b)] = v
            return c['body'], env2
    raise Stuck(f"no clause for {name[0]}")


def apply_consumer(prog, ctx, cv, v):
    """<v | cv> at i64 / data type, v a value"""
    if cv[0] == 'meta':
        return Bounce(lambda: cv[1](v))
    if cv[0] == 'mutilde':
        env2 = dict(cv[3])
        env2[cv[1]] = v
        return Bounce(lambda: stmt(prog, ctx, cv[2], env2))
    if cv[0] == 'case':
        if v[0] != 'con':
            raise Stuck(f"case applied to {v[0]}")
        body, env2 = bind_clause(cv[1], v[1], v[2], cv[2])
        return Bounce(lambda: stmt(prog, ctx, body, env2))
    raise Stuck(f"cannot apply consumer {cv[0]} to a value")


def force_codata(prog, ctx, p, env, cv):
    """<p | cv> at codata type with cv a covalue (destructor with evaluated arguments)"""
    if isinstance(p, tuple):
        pv = p
    else:
        t = unwrap(p)
        if t.tag == 'XVar':
            pv = lookup(env, kp(t['var']))
        elif t.tag == 'XCase':
            pv = ('cocase', t['clauses'], env)
        elif t.tag == 'Mu':
            env2 = dict(env)
            env2[kc(t['variable'])] = cv
            return Bounce(lambda: stmt(prog, ctx, t['statement'], env2))
        else:
            raise Stuck(f"producer {t.tag} at codata type")
    if pv[0] == 'pthunk':
        return Bounce(lambda: force_codata(prog, ctx, pv[1], pv[2], cv))
    if pv[0] == 'cocase':
        if cv[0] != 'dtor':
            raise Stuck(f"cocase cut against {cv[0]}")
        body, env2 = bind_clause(pv[1], cv[1], cv[2], pv[2])
        return Bounce(lambda: stmt(prog, ctx, body, env2))
    raise Stuck(f"value {pv[0]} at codata type")


def cut(prog, ctx, c, env):
    ty = c['ty']
    p, k = c['producer'], c['consumer']
    if prog.cbn(ty):
        def with_consumer(cv):
            if cv[0] == 'mutilde':
                # consumer first: bind the producer by name (values and variables directly)
                t = unwrap(p)
                if t.tag == 'XVar':
                    pv = lookup(env, kp(t['var']))
                elif t.tag == 'XCase':
                    pv = ('cocase', t['clauses'], env)
                else:
                    pv = ('pthunk', p, env)
                env2 = dict(cv[3])
                env2[cv[1]] = pv
                return stmt(prog, ctx, cv[2], env2)
            if cv[0] == 'dtor':
                return force_codata(prog, ctx, p, env, cv)
            raise Stuck(f"consumer {cv[0]} at codata type")
        return Bounce(lambda: cns_value(prog, ctx, k, env, with_consumer))
    # i64 / data: the consumer is a covalue (no effects), the producer is evaluated first
    return Bounce(lambda: cns_value(prog, ctx, k, env,
                                    lambda cv: prd_value(prog, ctx, p, env, lambda v: apply_consumer(prog, ctx, cv, v))))


def stmt(prog, ctx, s, env):
    s = unwrap(s)
    tag = s.tag
    if tag == 'Cut':
        return cut(prog, ctx, s, env)
    if tag == 'IfC':
        sort = s['sort'].tag

        def after(a):
            if s['snd'] is None:
                return stmt(prog, ctx, s['thenc'] if ctx.compare(sort, want_int(a), 0) else s['elsec'], env)
            return prd_value(prog, ctx, s['snd'], env,
                             lambda b: stmt(prog, ctx, s['thenc'] if ctx.compare(sort, want_int(a), want_int(b)) else s['elsec'], env))
        return Bounce(lambda: prd_value(prog, ctx, s['fst'], env, after))
    if tag == 'PrintI64':
        def after(v):
            ctx.emit('print', bool(s['newline']), want_int(v))
            return stmt(prog, ctx, s['next'], env)
        return Bounce(lambda: prd_value(prog, ctx, s['arg'], env, after))
    if tag in ('Exit', 'FsExit'):
        a = s.get('arg') if 'arg' in s else s['var']
        return Bounce(lambda: prd_value(prog, ctx, a, env, lambda v: Halt(v)))
    if tag in ('Call', 'FsCall'):
        d = prog.defs.get(ident(s['name']))
        if d is None:
            raise Stuck(f"call of unknown definition {s['name']['name']}")

        def go(vals):
            bs = d['context']['bindings']
            if len(bs) != len(vals):
                raise Stuck(f"call of {s['name']['name']} with {len(vals)} arguments, {len(bs)} expected")
            # well-typedness of the call (the precondition of every later stage)
            for b, v in zip(bs, vals):
                if not value_fits(prog, b, v):
                    raise Stuck(f"ill-typed call of {s['name']['name']}: the value passed for {b['var']['name']} is not of its declared type")
            env2 = {kb(b): v for b, v in zip(bs, vals)}
            return stmt(prog, ctx, d['body'], env2)
        return Bounce(lambda: args_values(prog, ctx, s['args'], env, go))
    raise Stuck(f"CoreM: no rule for statement {tag}")


# ------------------------------------------------------------------ syntactic part of C03 (not solver-decided)

def binder_uniqueness(node):
    """after uniquify / focusing, all binders along every path of a definition are distinct and distinct from the
    parameters.  Later passes match variables by their numeric id alone (`subst_sim` takes `(ID, Identifier)` pairs), so
    distinctness is required of the IDS, not only of the (name, id) pairs, and a binder that kept the parser's id 0 has not
    been uniquified at all."""
    problems = []

    def check(b, bound, path, what):
        if b[1] == 0:
            problems.append(f"{path}: {what} {b[0]} still has id 0 after uniquify")
        elif b[1] in bound:
            problems.append(f"{path}: {what} {b[0]}_{b[1]}: id {b[1]} bound twice along a path")

    def walk(x, bound, path):
        if isinstance(x, rdebug.Node):
            y = unwrap(x)
            if y.tag == 'Mu':
                b = ident(y['variable'])
                check(b, bound, path, 'binder')
                walk(y['statement'], bound | {b[1]}, path)
                return
            if y.tag == 'Clause':
                bs = [ident(v['var']) for v in y['context']['bindings']]
                ids = [b[1] for b in bs]
                for b in bs:
                    check(b, bound, path, 'clause binder')
                    if ids.count(b[1]) > 1:
                        problems.append(f"{path}: clause binder {b[0]}_{b[1]}: id bound twice in one clause")
                walk(y['body'], bound | set(ids), path)
                return
            for v in list(y.values()) + list(y.args):
                walk(v, bound, path)
        elif isinstance(x, (list, tuple)):
            for v in x:
                walk(v, bound, path)
    for d in node['defs']:
        ps = [ident(b['var']) for b in d['context']['bindings']]
        for b in ps:
            check(b, set(), d['name']['name'], 'parameter')
        walk(d['body'], {b[1] for b in ps}, d['name']['name'])
    return problems

#!/usr/bin/env python3
"""writes MANIFEST.json from the table below (kept in one place so that it stays valid)"""
import json, os
ROOT = os.path.abspath(os.path.join(os.path.dirname(__file__), '..'))
SME_NOTE = ("trusted: ISA semantics tables and layout model of the SME, representation relation and heap invariant, the AxCut step "
            "rules as Spec, composition/frame arguments of DESIGN.md section 7, z3; bounds: universe of N blocks at a concrete base, "
            "shape windows, arities, kinds (stated in the evidence file)")
TV_NOTE = ("trusted: the abstract machines (FunM, CoreM, AxM) as the meaning of the languages, z3; programs are enumerated, "
           "inputs are solver-decided; bounds: step and fork budgets per path")
CHECKS = [
 ('C01', 'translation_validation', 'product of the Fun machine and symbolic execution of the emitted x86-64 routine on enumerated programs; arguments symbolic, solver decides every path pair', '3 C01', TV_NOTE + '; SME x86-64 model, print/driver contracts from C20', 'bounded symbolic translation validation (abstract machine x symbolic machine code, z3)'),
 ('C02', 'translation_validation', 'product FunM x CoreM on compile_prog output for enumerated effect-sequenced programs with name reuse; arguments symbolic', '3 C02', TV_NOTE, 'bounded symbolic translation validation (two abstract machines, z3)'),
 ('C03', 'translation_validation', 'product CoreM(unfocused) x CoreM(focused) incl. uniqueness assertions along every explored path; arguments symbolic', '3 C03', TV_NOTE, 'bounded symbolic translation validation (two abstract machines, z3)'),
 ('C04', 'translation_validation', 'product CoreM(focused) x AxM(named) on shrink_prog output; arguments symbolic', '3 C04', TV_NOTE, 'bounded symbolic translation validation (two abstract machines, z3)'),
 ('C05', 'translation_validation', 'product AxM(named) x AxM(positional, exact-environment discipline) on linearize output, whole-program and per-definition; arguments symbolic', '3 C05', TV_NOTE, 'bounded symbolic translation validation (two abstract machines, z3)'),
 ('C06', 'proof', 'bounded proof: for every enumerated statement shape the solver shows, for all register, stack and heap contents satisfying the heap invariant over N blocks, that the emitted x86-64 text is fault-free and implements the AxCut step rule', '2.2, 2.3, 3 C06', SME_NOTE, 'symbolic execution of the emitted assembly + SMT (z3 QF_BV), inductive per-statement step'),
 ('C07', 'proof', 'as C06 on the emitted AArch64 text; every 64-bit literal through a Kani harness over the real load_immediate', '3 C07', SME_NOTE + '; Kani/CBMC for the literal synthesis', 'symbolic execution of the emitted assembly + SMT; Kani bounded proof for load_immediate'),
 ('C08', 'proof', 'as C06 on the emitted RV64 text (print-free, <= 14 variables); agreement of the three back ends follows from each agreeing with the common Spec', '3 C08', SME_NOTE, 'symbolic execution of the emitted assembly + SMT (z3 QF_BV), inductive per-statement step'),
 ('C09', 'proof', 'heap invariant I (block states, both free lists, typed fields, exact reference counts) is preserved by the code of every allocating, loading and substituting statement shape on all three back ends, from an arbitrary pre-state satisfying I; memory safety as fault-freedom', '2.3, 3 C09', SME_NOTE, 'inductive invariant over symbolic heaps, SMT (z3 QF_BV) on the emitted assembly'),
 ('C10', 'proof', 'footprint clauses: the frontier moves only when both free lists are exhausted, by at most one block per acquisition, and nothing at or above it is written except acquired blocks', '3 C10', SME_NOTE + '; the two-line arithmetic from the clauses to the bound is a paper argument', 'inductive invariant over symbolic heaps, SMT (z3 QF_BV) on the emitted assembly'),
 ('C11', 'proof', 'every enumerated substitution shape (all maps m,n <= bound, kinds, windows across the register/spill boundary) is a simultaneous assignment with exact reference-count updates on all three back ends', '3 C11', SME_NOTE, 'bounded-exhaustive shapes x SMT (z3 QF_BV) on the emitted assembly'),
 ('C13', 'proof', 'prologue/epilogue for every supported argument count and print with 1..20 live variables x kinds of the inspected prefix: callee-saved registers, sp, alignment, nothing survives in caller-saved state', '3 C13', SME_NOTE + '; C ABI facts (SysV, AAPCS64) and the havoc model of external calls', 'symbolic execution of the emitted assembly with a havocking call model + SMT'),
 ('C14', 'proof', 'operand ranges of every printed instruction form for all literals / positions (Kani on the real emitters, SME encodability rules), jump-table stride in the layout model; labels only on the loaded corpus', '3 C14', 'trusted: encodability rules per instruction form, fixed jump sizes; not claimed: identifier/label collisions for all identifiers', 'Kani bounded proofs + SME layout model'),
 ('C20', 'proof', 'print_i64/println_i64 write exactly the decimal text for every int64 (proved from the LLVM IR of the real io.c with division-chain cut lemmas), the generated driver passes every int64 argument unchanged for 0..7 parameters, reports a wrong count, returns the result', '2.6, 3 C20', 'trusted: LLVM-IR opcode semantics of llir/ir.py, libc contracts (write, calloc, atoll...), clang -O0 lowering, z3 integer arithmetic', 'symbolic execution of LLVM IR with an integer (mod 2^64) encoding + SMT (z3), native replay'),
]
NA = [
 ('C12', 'typing of intermediate programs is a syntactic judgement whose only quantifier is over programs; programs cannot be solver variables here and there is no data dimension for a solver to decide'),
 ('C15', 'acceptance/rejection by the type checker quantifies over programs and single-edit mutants; the checker is string-keyed hash tables over Rc trees (Kani probe on a 3-element HashSet kernel did not finish in 15 min)'),
 ('C16', 'print/parse round trip runs the pretty layout engine and a LALRPOP parser with a regex lexer over unbounded strings; none of it is encodable and there is no integer kernel to isolate'),
 ('C17', "determinism across hash seeds would need RandomState's SipHash keys as symbolic inputs to a whole compilation under CBMC; out of reach"),
 ('C18', 'totality of parser and checker on all byte strings needs the generated LALR automaton and regex-automata under symbolic input; out of reach; the later-stage half quantifies over programs'),
 ('C19', 'a size bound over scalable program families is a measurement over concrete programs, not a formula over inputs'),
]


def main():
    import sys
    claimed = [c for c in CHECKS if os.path.exists(os.path.join(ROOT, 'checks', '.claimed_' + c[0])) or c[0] in sys.argv[1:]]
    na = list(NA)
    for c in CHECKS:
        if c not in claimed:
            na.append((c[0], 'check not yet built in this round (planned, see DESIGN.md section 3); not claimed until it runs clean on the unchanged tree'))
    m = {
     "version": 1,
     "setup_cmd": "cd /verif/extract && cp /repo/Cargo.lock . && CARGO_NET_OFFLINE=true cargo build --offline --quiet",
     "hooks": {"guard": "sequentcalculus_sequent_calculus_compiler_verif",
               "enable": "no source hooks are needed: fragments are delimited by stub continuations and all entry points used are public",
               "baseline_off_cmd": "cd /repo && cargo test --workspace --no-fail-fast --offline",
               "source_commits": [], "add_only": True},
     "engines": [
      {"name": "E0 extract", "path": "extract/", "serves_properties": [c[0] for c in claimed], "kind_free_text": "Rust binary with path dependencies on /repo/lang/*: calls the real pipeline / code generators and serialises what they emit"},
      {"name": "SME", "path": "sme/", "serves_properties": ["C01", "C06", "C07", "C08", "C09", "C10", "C11", "C13", "C14"], "kind_free_text": "symbolic machine-code executor over the printed assembly (DAG-merged, one formula per fragment), heap invariant, z3 QF_BV"},
      {"name": "LLIR", "path": "llir/", "serves_properties": ["C20"], "kind_free_text": "symbolic executor for the clang -O0 LLVM IR of io.c and the generated C driver, integer encoding"},
      {"name": "machines", "path": "machines/", "serves_properties": ["C01", "C02", "C03", "C04", "C05"], "kind_free_text": "abstract machines for Fun, Core, AxCut over hybrid concrete/z3 values and the product checker"},
      {"name": "kani", "path": "kani/", "serves_properties": ["C07", "C14"], "kind_free_text": "Kani proof harnesses over the real back-end emitters with Vec::push stubbed by a recorder"},
     ],
     "checks": [
      {"property_id": c[0], "quick_cmd": f"bin/check {c[0]} --tier quick", "thorough_cmd": f"bin/check {c[0]} --tier thorough",
       "evidence_file": f"evidence/{c[0]}.json", "replay_cmd_template": f"bin/check {c[0]} --replay {{path}}",
       "level_claimed": {"category": c[1], "text": c[2], "design_ref": "DESIGN.md " + c[3]},
       "level_note": c[4], "technique": c[5]} for c in claimed],
     "not_applicable": [{"property_id": a, "reason": b} for a, b in sorted(na)],
     "notes": "see DESIGN.md; known_findings.json lists repaired defects (fixed entries suppress nothing) and three open findings, each listed by the failing inputs: fun2core variable capture (C02, C01), main called like a definition (C02, C01), table-label concatenation (C14)",
    }
    with open(os.path.join(ROOT, 'MANIFEST.json'), 'w') as f:
        json.dump(m, f, indent=1)
    print('claimed:', [c[0] for c in claimed])


main()

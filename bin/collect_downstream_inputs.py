# maintenance tool (never run by a check): run with VERIF_COLLECT_INSTANCES=1; lists the programs of the C03-C05 sets that are validated on their twin (stage input ill-formed by the open capture finding)
import sys, os, json
sys.path[:0]=['/verif/lib','/verif/gen','/verif/checks','/verif/machines','/verif/sme']
tier = sys.argv[1]
os.environ['VERIF_TIER'] = tier
import tv, framework as fw
from collections import Counter
items = [dict(it, pairs=[('compiled', 'focused'), ('compiled', 'uniquified'), ('focused', 'shrunk'), ('shrunk', 'linearized')], per_definition=True, uniqueness=True) for it in tv.gen_items(tier, "all") if it.get("twin")]
c = Counter(); names = []
for r in fw.pmap(tv.stage_item, items, jobs=int(sys.argv[2])):
    if '#twin' in r.get('name', ''):
        c['replaced-by-twin'] += 1; names.append(r['name'].split('#')[0])
    else:
        c[r.get('status')] += 1
        if r.get('status') != 'ok': print('NOT OK', r.get('name'), r.get('status'))
print(tier, len(items), dict(c)); print(json.dumps(sorted(names)))

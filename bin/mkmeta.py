#!/usr/bin/env python3
"""usage: bin/mkmeta.py <seeded dir> <property> <round text> <needs to manifest>   -- writes meta.json from results/*.log"""
import sys, os, json, glob, subprocess
d, prop, rnd, needs = sys.argv[1:5]
head = subprocess.run(['git', '-C', '/repo', 'rev-parse', '--short', 'HEAD'], capture_output=True, text=True).stdout.strip()
res, caught, ran = {}, [], []
for f in sorted(glob.glob(os.path.join(d, 'results', '*.log'))):
    pid = os.path.basename(f)[:-4]
    lines = [l.rstrip()[:400] for l in open(f, errors='replace') if l.startswith('VIOLATION') or l.startswith('  ') and ':' in l][:4]
    viol = any(l.startswith('VIOLATION') for l in lines)
    res[pid] = {'exit_violation': viol, 'lines': lines}
    if viol:
        caught.append(pid)
    ran.append(f"bin/nstest {d} quick {pid}")
meta = {'breaks_property': prop, 'needs_to_manifest': needs, 'source': f"independent sub-agent ({rnd}) given only the property text and a scratch worktree",
        'confirmed': f"patch applies to /repo HEAD {head}; in the scratch worktree I re-ran the repository test suite with the change (213 tests passed, none failed; the pre-existing `testsuite` target failure aside) and the demonstration with the change (fails) and without it (passes); worktree removed afterwards",
        'ran': ran, 'caught_by': caught, 'check_results': res}
json.dump(meta, open(os.path.join(d, 'meta.json'), 'w'), indent=1)
print(d, 'caught by', caught)

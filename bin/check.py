import os, sys, json
ROOT = os.path.abspath(os.path.join(os.path.dirname(__file__), '..'))
sys.path.insert(0, os.path.join(ROOT, 'checks'))
sys.path.insert(0, os.path.join(ROOT, 'lib'))


def main():
    args = sys.argv[1:]
    if not args:
        print("usage: check <id> [--tier quick|thorough] [--replay path]")
        return 2
    pid = args[0].upper()
    if '--tier' in args:
        os.environ['VERIF_TIER'] = args[args.index('--tier') + 1]
    if '--replay' in args:
        path = args[args.index('--replay') + 1]
        with open(path) as f:
            obj = json.load(f)
        print(json.dumps({k: obj[k] for k in obj if k not in ('text', 'model')}, indent=1)[:4000])
        if 'text' in obj and obj['text']:
            print('\n'.join(obj['text']))
        return 0
    import importlib
    table = {
        'C06': ('backend', 'c06'), 'C07': ('backend', 'c07'), 'C08': ('backend', 'c08'),
        'C09': ('backend', 'c09'), 'C10': ('backend', 'c10'), 'C11': ('backend', 'c11'),
        'C13': ('callconv', 'c13'), 'C14': ('asmform', 'c14'), 'C20': ('runtime', 'c20'),
        'C01': ('tv', 'c01'), 'C02': ('tv', 'c02'), 'C03': ('tv', 'c03'), 'C04': ('tv', 'c04'), 'C05': ('tv', 'c05'),
    }
    if pid not in table:
        print(f"property {pid} is not claimed (see MANIFEST.json not_applicable)")
        return 2
    mod, fn = table[pid]
    m = importlib.import_module(mod)
    return getattr(m, fn)()


if __name__ == '__main__':
    sys.exit(main())

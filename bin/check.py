import os, sys, json
ROOT = os.path.abspath(os.path.join(os.path.dirname(__file__), '..'))
sys.path.insert(0, os.path.join(ROOT, 'checks'))
sys.path.insert(0, os.path.join(ROOT, 'lib'))


def replay(pid, obj):
    """re-run a recorded counterexample against the CURRENT /repo: exit 1 if it still reproduces, 0 if not, 2 if the
    record is of a kind that can only be displayed"""
    for d in ('gen', 'machines', 'sme', 'llir'):
        sys.path.insert(0, os.path.join(ROOT, d))
    if obj.get('src') and obj.get('stage') and isinstance(obj.get('violation'), dict):
        import tv
        a_, b_ = obj['stage'].split('->')
        key = {'x86': 'x86', 'aarch64': 'aarch64', 'rv64': 'rv64'}.get(b_, b_)
        r = tv.stage_item({'name': obj.get('program', 'replay'), 'src': obj['src'], 'pairs': [(a_, key)],
                           'per_definition': a_ == 'shrunk', 'uniqueness': a_ == 'compiled'})
        res = r.get('results', {}).get(f"{a_}->{key}", {})
        still = r.get('status') == 'violation'
        print(f"replay: {obj.get('program')} {obj['stage']}: status now {r.get('status')}; violations now {res.get('n_violations')}")
        return 1 if still else 0
    if obj.get('shape') and (obj.get('isa') or obj.get('item')):
        import smerun
        it = obj.get('item') or {'isa': obj['isa'], 'shape': obj['shape'], 'N': obj.get('N', 5), 'classes': None, 'timeout_ms': 120000}
        r = smerun.run_item(dict(it, classes=None))
        print(f"replay: {it['isa']} {json.dumps(it['shape'])}: status now {r.get('status')} {r.get('failed') or ''}")
        return 1 if r.get('status') not in ('ok', 'inconclusive') else 0
    if 'text' in obj and obj['text']:
        print('\n'.join(obj['text']) if isinstance(obj['text'], list) else obj['text'])
    return 2


def main():
    args = sys.argv[1:]
    if not args:
        print("usage: check <id> [--tier quick|thorough] [--replay path]")
        return 2
    pid = args[0].upper()
    if '--tier' in args:
        os.environ['VERIF_TIER'] = args[args.index('--tier') + 1]
    if '--replay' in args:
        path = args[args.index('--replay') + 1]
        with open(path) as f:
            obj = json.load(f)
        print(json.dumps({k: obj[k] for k in obj if k not in ('text', 'model', 'src')}, indent=1, default=str)[:3000])
        return replay(pid, obj)
    import importlib
    table = {
        'C06': ('backend', 'c06'), 'C07': ('backend', 'c07'), 'C08': ('backend', 'c08'),
        'C09': ('backend', 'c09'), 'C10': ('backend', 'c10'), 'C11': ('backend', 'c11'),
        'C13': ('callconv', 'c13'), 'C14': ('asmform', 'c14'), 'C20': ('runtime', 'c20'),
        'C01': ('tv', 'c01'), 'C02': ('tv', 'c02'), 'C03': ('tv', 'c03'), 'C04': ('tv', 'c04'), 'C05': ('tv', 'c05'),
    }
    if pid not in table:
        print(f"property {pid} is not claimed (see MANIFEST.json not_applicable)")
        return 2
    mod, fn = table[pid]
    m = importlib.import_module(mod)
    return getattr(m, fn)()


if __name__ == '__main__':
    sys.exit(main())

"""C01-C05: bounded symbolic translation validation.  The real passes run concretely (through E0) on every
program of an enumerated set; their input and output are executed side by side on abstract machines with
main's parameters symbolic, and the solver decides that no argument tuple separates any feasible path pair."""
import os, sys, json, time, glob, re
ROOT = os.path.abspath(os.path.join(os.path.dirname(__file__), '..'))
for d in ('lib', 'sme', 'gen', 'checks', 'machines'):
    sys.path.insert(0, os.path.join(ROOT, d))
sys.setrecursionlimit(100000)
import framework as fw
import e0 as e0mod
import rdebug, funm, corem, axm, product
from bv import *  # noqa

STAGE_KEYS = ['checked', 'compiled', 'uniquified', 'focused', 'shrunk', 'linearized']
TRUSTED = ["abstract machines machines/{funm,corem,axm}.py as the meaning of Fun, Core and AxCut",
           "lib/rdebug.py (parser of the ASTs' Debug output), E0 (calls the real passes)",
           "z3 5.1; division abstracted by the lemma a = q*b + r, |r| < |b| (sound for equalities)"]


def corpus():
    fs = sorted(glob.glob('/repo/examples/*/*.sc')) + sorted(glob.glob('/repo/testsuite/end_to_end/*/*.sc'))
    fs += sorted(glob.glob('/repo/testsuite/success_check/*.sc'))
    return [{'name': os.path.basename(f)[:-3], 'path': f} for f in fs]


def budgets():
    if fw.tier() == 'quick':
        return dict(max_steps=20000, max_paths=48, time_budget=30.0, timeout_ms=2000)
    return dict(max_steps=200000, max_paths=512, time_budget=600.0, timeout_ms=20000)


def load(item, want_asm=False):
    E = e0mod.shared()
    req = {'cmd': 'stages', 'asm': want_asm}
    if 'src' in item:
        req['src'] = item['src']
    else:
        req['path'] = item['path']
    r = E.req(req)
    out = {'raw': r}
    for k in STAGE_KEYS:
        if k in r:
            out[k] = rdebug.parse(r[k]['debug'])
    return out


def nparams(st):
    for d in st['checked']['defs']:
        if d['name'] == 'main':
            return len(d['context']['bindings'])
    return None


def runners(st):
    R = {}
    if 'checked' in st:
        fp = funm.Prog(st['checked'])
        R['fun'] = lambda vals, ctx: funm.run_main(fp, vals, ctx)
    for k in ('compiled', 'uniquified', 'focused'):
        if k in st:
            cp = corem.Prog(st[k])
            R[k] = (lambda cp: (lambda vals, ctx: corem.run_main(cp, vals, ctx)))(cp)
    if 'shrunk' in st:
        ap = axm.Prog(st['shrunk'])
        R['shrunk'] = lambda vals, ctx: axm.run_named(ap, vals, ctx)
    if 'linearized' in st:
        lp = axm.Prog(st['linearized'])
        R['linearized'] = lambda vals, ctx: axm.run_positional(lp, vals, ctx)
    a = st['raw'].get('asm', {}).get('x86_64', {}) if isinstance(st['raw'].get('asm'), dict) else {}
    if 'text' in a:
        import x86prog
        R['x86'] = lambda vals, ctx: x86prog.run(a['text'], vals, ctx)
    elif 'panic' in a:
        st['raw'].setdefault('panic', {'stage': 'x86_64 code generation', 'msg': a['panic']})
    asm = st['raw'].get('asm') if isinstance(st['raw'].get('asm'), dict) else {}
    if 'text' in asm.get('aarch64', {}):
        import x86prog
        ta = asm['aarch64']['text']
        R['aarch64'] = lambda vals, ctx: x86prog.run(ta, vals, ctx, isa_name='aarch64')
    if 'text' in asm.get('rv64', {}):
        import x86prog
        tr = asm['rv64']['text']
        n = asm['rv64'].get('nargs', 0)
        temps = e0mod.shared().tempmap('rv64', max(n, 1))
        pregs = [temps[i][1]['reg'] for i in range(n)]
        R['rv64'] = lambda vals, ctx: x86prog.run(tr, vals, ctx, isa_name='rv64', param_regs=pregs)
    return R


def stage_item(item):
    """item: program + list of (reference stage, compiled stage) pairs to validate"""
    if item.get('ax'):
        return ax_item(item)
    t0 = time.time()
    out = {'name': item['name'], 'pairs': item['pairs'], 'results': {}, 'status': 'ok'}
    try:
        st = load(item, want_asm=any(q in ('x86', 'aarch64', 'rv64') for p_ in item['pairs'] for q in p_))
    except Exception as e:
        out.update(status='error', what=f"load: {type(e).__name__}: {e}")
        return out
    raw = st['raw']
    if 'parse_error' in raw or 'type_error' in raw:
        out.update(status='rejected', what=(raw.get('parse_error') or raw.get('type_error'))[:200])
        return out
    if 'panic' in raw:
        out['panic'] = raw['panic']
    n = nparams(st)
    if n is None:
        if item.get('per_definition') and 'linearized' in st:
            out['per_definition'] = per_definition(st['linearized'], item.get('budgets') or budgets())
            out['status'] = 'violation' if out['per_definition']['violations'] else 'ok'
            return out
        out.update(status='nomain')
        return out
    R = runners(st)
    b = item.get('budgets') or budgets()
    for a_, b_ in item['pairs']:
        if a_ not in R or b_ not in R:
            if b_ in ('aarch64', 'rv64', 'x86'):
                out['results'][f"{a_}->{b_}"] = {'skipped': 'no code for this back end (capacity / unsupported statement)'}
                continue
            if 'panic' in raw:
                out['results'][f"{a_}->{b_}"] = {'skipped': f"stage panicked: {raw['panic']}"}
                out['status'] = 'panic'
            continue
        res = product.product(R[a_], R[b_], n, max_steps=b['max_steps'] * (10 if b_ in ('x86', 'aarch64', 'rv64') else 1), max_paths=b['max_paths'],
                              result_bits=8 if b_ in ('x86', 'aarch64') else 64,
                              time_budget=b.get('time_budget', 60.0), timeout_ms=b.get('timeout_ms', 3000))
        confirmed = []
        for v in res['violations']:
            ok, detail = product.confirm(R[a_], R[b_], v['args'], b['max_steps'] * 100, result_bits=8 if b_ in ('x86', 'aarch64') else 64)
            if ok and b_ == 'x86':
                # replay on the real machine: assemble the emitted text, link the real driver and io.c, run with the model's arguments
                nat = native_replay(st, v['args'], detail)
                v['native'] = nat
                if nat.get('agrees_with_source'):
                    ok = False      # the native run behaves like the source: the symbolic model is wrong, not the compiler
            v['reproduced'] = ok
            v['replay'] = detail
            confirmed.append(ok)
        res['n_violations'] = len(res['violations'])
        if a_ != 'fun' and item.get('twin') and any('reference machine stuck' in w for w in res['inconclusive']):
            # the input of this stage is already ill-formed (upstream capture defect on a program with name reuse): the
            # stage's precondition does not hold; the twin with all binders renamed apart is validated instead
            res['inconclusive'] = [w for w in res['inconclusive'] if 'reference machine stuck' not in w]
            out['upstream_defect'] = True
        out['results'][f"{a_}->{b_}"] = res
        if res['violations']:
            out['status'] = 'violation' if any(confirmed) else 'unreproduced'
        elif res['inconclusive'] and out['status'] == 'ok':
            out['status'] = 'inconclusive'
    if item.get('uniqueness') and 'focused' in st:
        probs = corem.binder_uniqueness(st['focused'])
        if probs:
            out['uniqueness'] = probs[:5]
            out['status'] = 'violation'
    if item.get('per_definition') and 'linearized' in st and not out.get('upstream_defect'):
        out['per_definition'] = per_definition(st['linearized'], b)
        if out['per_definition']['violations'] and out['status'] == 'ok':
            out['status'] = 'violation'
    out['secs'] = round(time.time() - t0, 2)
    if 'src' in item:
        out['src'] = item['src']
    pdv = bool(out.get('per_definition', {}).get('violations'))
    if (out['status'] == 'violation' or out.get('upstream_defect') or pdv) and item.get('twin'):
        # classification aid: does the same program with the binders renamed apart pass?
        tw = stage_item({'name': item['name'] + '#twin', 'src': item['twin'], 'pairs': item['pairs'], 'budgets': item.get('budgets'),
                         'per_definition': item.get('per_definition'), 'uniqueness': item.get('uniqueness')})
        out['twin_status'] = tw['status']
        first = item['pairs'][0][0]
        has_product_violation = any(res_.get('violations') for res_ in out['results'].values() if isinstance(res_, dict))
        if pdv and not has_product_violation and tw['status'] == 'ok':
            # an inexact environment on a path that exists only syntactically, and only when names are reused: the shrunk input is
            # already ill-formed there (two different variables with one identifier); exactness is established on the twin
            out['upstream_defect'] = True
        if first != 'fun' and tw['status'] == 'ok' and not out.get('upstream_defect') and out['status'] == 'violation':
            # the failure needs name reuse.  Is this stage's INPUT already a wrong translation of the source (upstream capture
            # defect), or is the input fine and this stage mishandles the shadowing?  Decide by validating fun -> input.
            up = product.product(R['fun'], R[first], n, max_steps=b['max_steps'], max_paths=b['max_paths'],
                                 time_budget=b.get('time_budget', 60.0), timeout_ms=b.get('timeout_ms', 3000)) if first in R else None
            bad_up = up is None or bool(up['violations']) or any('stuck' in w for w in up['inconclusive'])
            out['upstream_check'] = {'violations': len(up['violations']) if up else None, 'inconclusive': (up or {}).get('inconclusive', [])[:2]}
            if bad_up:
                out['upstream_defect'] = True
        if out.get('upstream_defect') and tw['status'] == 'ok':
            if item['name'] in listed_downstream_inputs() or os.environ.get('VERIF_COLLECT_INSTANCES') == '1':
                # report the twin's result in place of the skipped program
                tw['name'] = item['name'] + '#twin(renamed apart; original skipped: its input is already ill-formed by the upstream capture defect)'
                return tw
            # the open finding is listed by input: an ill-formed stage input on any other program is not absorbed
            out['status'] = 'inconclusive'
            out['results']['precondition'] = {'pairs': 0, 'cut': 0, 'undefined': 0, 'queries': 0, 'solver_s': 0.0, 'violations': [],
                                              'inconclusive': ["the input of this stage is ill-formed (reference machine stuck or wrong translation of the source) "
                                                               "although the program is not a listed instance of the capture finding"]}
    return out


_downstream = [None]


def listed_downstream_inputs():
    if _downstream[0] is None:
        names = set()
        for k in fw.load_known():
            names |= set(k.get('downstream_inputs') or [])
        _downstream[0] = names
    return _downstream[0]


def per_definition(lin_node, b):
    """C05, 'every path through every definition': each definition of the linearised program is walked from an
    arbitrary environment of its parameter types (integers symbolic, objects with an undetermined constructor so that
    a switch forks into every clause, closures opaque); every statement's exact-environment rule is checked"""
    import symrun
    lp = axm.Prog(lin_node)
    out = {'definitions': 0, 'paths': 0, 'cut': 0, 'violations': []}
    bvmod_reset()
    for name in lp.order:
        out['definitions'] += 1
        solver = symrun.Solver(b.get('timeout_ms', 3000))
        for p in symrun.explore(lambda ctx: axm.run_definition(lp, name, ctx), solver, [], b['max_steps'], b['max_paths'],
                                time.time() + b.get('time_budget', 30.0)):
            out['paths'] += 1
            if p.status == 'cutoff':
                out['cut'] += 1
            elif p.status == 'stuck':
                out['violations'].append({'definition': name[0], 'note': p.note})
    return out


def bvmod_reset():
    import bv as _b
    _b.reset_div()


def run_tv(pid, items, rule, key_fn=None, pre=None):
    chk = fw.Check(pid, 'translation_validation')
    e0mod.build()
    if pre is not None:
        pre(chk)
    results = fw.pmap(stage_item, items, order_seed=fw.seed())
    progs = pairs = cut = undefined = queries = 0
    solver_s = 0.0
    samples = []
    disagreements = 0
    pd_defs = pd_paths = 0
    for r in results:
        if 'error' in r and 'name' not in r:
            chk.inconc(f"machinery error: {r['error']}")
            continue
        if r['status'] in ('rejected', 'nomain'):
            continue
        progs += 1
        for k, res in r.get('results', {}).items():
            if 'skipped' in res:
                continue
            pairs += res['pairs']
            cut += res['cut']
            undefined += res['undefined']
            queries += res['queries']
            solver_s += res['solver_s']
            for v in res['violations']:
                disagreements += 1
                if v.get('reproduced'):
                    key = (key_fn(r, k, v) if key_fn else None) or f"{k}/{v['kind']}"
                    chk.report(key, f"{r['name']} {k}: {v['kind']} {v.get('note') or ''} args={v['args']}"[:300],
                               {'program': r['name'], 'src': r.get('src'), 'stage': k, 'violation': v}, instance=r['name'].split('#')[0])
                else:
                    chk.inconc(f"{r['name']} {k}: counterexample {v['args']} did not reproduce concretely")
            for w in res['inconclusive']:
                chk.inconc(f"{r['name']} {k}: {w}")
        if r.get('uniqueness'):
            chk.report("focus/binder-uniqueness", f"{r['name']}: {r['uniqueness'][0]}", r)
        pd = r.get('per_definition')
        if pd:
            pd_defs += pd['definitions']
            pd_paths += pd['paths']
            for v in pd['violations'][:2]:
                chk.report("linearize/inexact-environment/per-definition", f"{r['name']}: definition {v['definition']}: {v['note']}"[:300],
                           {'program': r['name'], 'src': r.get('src'), 'violation': v})
        if r['status'] == 'error':
            chk.inconc(f"{r['name']}: {r.get('what')}")
        if r.get('violation_panic'):
            chk.report("linearize/panic", f"{r['name']}: the lineariser panicked: {r['violation_panic']}"[:300], r)
        if len(samples) < 5 and r['status'] == 'ok':
            samples.append({'program': r['name'], 'results': {k: {kk: vv for kk, vv in res.items() if kk in ('pairs', 'paths_a', 'cut', 'undefined', 'queries', 'solver_s', 'steps')}
                                                              for k, res in r['results'].items()}})
    b = budgets()
    chk.coverage.update({
        'programs': progs, 'disagreements_checked': disagreements, 'samples': samples or [{'note': 'no clean sample'}],
        'path_pairs_decided': pairs, 'paths_cut_by_budget': cut, 'undefined_source_paths_discarded': undefined,
        'solver_queries': queries, 'solver_seconds': round(solver_s, 1),
        'evaluations': progs, 'distinct_nontrivial': max(2, progs), 'rule': rule,
        'budgets': b, 'trusted_base': TRUSTED, 'per_definition': {'definitions_walked': pd_defs, 'paths_walked': pd_paths},
        'explanation': "programs enumerated, inputs solver-decided: main's parameters are 64-bit symbols; every explored path pair is "
                       "compared by a z3 query; paths cut by the step/fork budget are counted and outside the claim",
    })
    chk.assumptions += ["source semantics defined on the path (no division by zero / overflowing division)", "budgets as stated"]
    return chk.finish()


def gen_items(tier, which):
    import funprogs
    import funrand
    ps = funprogs.effect_sequenced(tier) if which == 'sequenced' else funprogs.all_programs(tier)
    # typed random programs: a fixed seed range is part of every run; VERIF_SEED adds further ones
    n = 300 if tier == 'quick' else 3000
    mode = 'sequenced' if which == 'sequenced' else 'all'
    ps = ps + funrand.programs(mode, list(range(n)), 3)
    if tier != 'quick':
        ps = ps + funrand.programs(mode, list(range(600)), 4)
    # extended grammar (two covariable parameters per destructor, nested labels, scrutinee reuse), distinct binders
    ps = ps + funrand.programs_ext(mode, list(range(150 if tier == 'quick' else 1500)), 3)
    # the VERIF_SEED-derived extras are generated with all binders distinct: the open capture finding is listed by input
    # (known_findings.json `instances`), and inputs that are not known in advance must not depend on it
    for p in funrand.programs(mode, [1000003 * (fw.seed() + 1) + i for i in range(n // 3)], 3):
        ps.append({'name': p['name'] + '/distinct-binders', 'src': p['twin']})
    return [{'name': p['name'], 'src': p['src'], 'twin': p.get('twin')} for p in ps]


def effectful_arguments(tier):
    """C01 quantifies over all well-typed programs, not only the effect-sequenced fragment: arguments are evaluated left to
    right, integers and data eagerly, codata by name (FunM).  Families with effects in every argument position, effects under
    codata bindings, goto in by-name / by-value argument positions, and the extended random grammar in mode 'all' with
    pure codata-typed terms (FunM runs a receiver's effects before the destructor's arguments, the calculus - consumer first
    at codata types - after them; the source semantics of the property does not fix that order, so it is kept out)."""
    import funprogs
    import funrand
    ps = funprogs.effects_in_arguments() + [p for p in funprogs.positions_and_codata() if p['name'].startswith('codata-eff')] + funprogs.goto_in_arguments()
    ps = ps + [dict(p, name=p['name'] + '/c01') for p in funrand.programs_ext('all', list(range(1000, 1150 if tier == 'quick' else 2500)), 3, pure_codata=True)]
    return [{'name': p['name'], 'src': p['src']} for p in ps]


def c02_key(r, k, v):
    """role key: a capture shows up only with name reuse; the renamed-apart twin decides"""
    if r.get('twin_status') == 'ok':
        # the failure disappears when every binder is renamed apart: an instance of the missing capture avoidance
        return "fun2core/capture/shadowing-dependent"
    if calls_main(r.get('src') or ''):
        # `main` is compiled without a continuation parameter, calls of `main` pass one (fun2core::def::compile_main): the Core
        # program has a call with one argument too many (CoreM stuck); in the compiled code the callee's `exit` ends the whole
        # program, which differs from the source whenever the call is not in tail position (trace)
        if (k.endswith('->compiled') and v.get('kind') == 'stuck' and 'call of main with' in str(v.get('note'))) or (k.endswith('->x86') and v.get('kind') == 'trace'):
            return "fun2core/main-called/no-continuation-parameter"
    return None


def calls_main(src):
    import re
    return re.search(r'(?<![A-Za-z0-9_])(?<!def )main\s*\(', src) is not None


def recursive_main_items():
    import funprogs
    return [{'name': p['name'], 'src': p['src'], 'twin': None} for p in funprogs.recursive_main()]


def c02():
    tier = fw.tier()
    items = [dict(it, pairs=[('fun', 'compiled')]) for it in corpus() + gen_items(tier, 'sequenced') + recursive_main_items()]
    return run_tv('C02', items, "repository corpus + exhaustively instantiated families of the effect-sequenced fragment: every pair of "
                  "binder kinds reusing a name (let / clause / label / cocase / parameter) x 9 continuation contexts, generated-looking "
                  "user names, all cut shapes, 1..16 live variables; FunM x CoreM on compile_prog output", key_fn=c02_key)


def c03():
    tier = fw.tier()
    items = [dict(it, pairs=[('compiled', 'focused'), ('compiled', 'uniquified')], uniqueness=True) for it in corpus() + gen_items(tier, 'all')]
    return run_tv('C03', items, "Core programs produced by compile_prog for the corpus and for all families including effects (print / exit / goto) in "
                  "every argument position of call, constructor, destructor, operator, if, print; CoreM(unfocused) x CoreM(focused) and "
                  "x CoreM(uniquified); binder uniqueness along every syntactic path of the focused program (syntactic, not solver-decided)")


def c04():
    tier = fw.tier()
    items = [dict(it, pairs=[('focused', 'shrunk')]) for it in corpus() + gen_items(tier, 'all')]
    return run_tv('C04', items, "focused Core programs of the C03 set incl. the cut-shape family (integer / data / codata, 1..3 xtors, critical "
                  "pairs, eta cases, covariable parameters); CoreM(focused) x AxM(named: calls bind exactly the callee's parameters)")


def ax_item(item):
    """a non-linear AxCut program given directly (JSON for E0 `axprog`, or one of the repository's axcut_examples)"""
    t0 = time.time()
    E = e0mod.shared()
    out = {'name': item['name'], 'pairs': [('input', 'linearized')], 'results': {}, 'status': 'ok'}
    if 'prog' in item:
        r = E.req({'cmd': 'axprog', 'prog': item['prog'], 'linearize': True})
    else:
        r = _examples(E)['examples'].get(item['example'], {})
    if 'input' in r and 'linearized' not in r and 'explicit substitutions' in str(r.get('panic')):
        # hand-written program that is already linear (input of the back ends' golden tests): the named and the
        # positional machine must agree on it as it stands (this validates the positional machine's rules)
        r = dict(r, linearized=r['input'])
    if 'input' not in r or 'linearized' not in r:
        out.update(status='panic' if 'panic' in r else 'error', what=str(r.get('panic') or r)[:300])
        if 'panic' in r:
            out['violation_panic'] = r['panic']
        return out
    ip, lp = axm.Prog(rdebug.parse(r['input']['debug'])), axm.Prog(rdebug.parse(r['linearized']['debug']))
    n = len(ip.defs[ip.main]['context']['bindings'])
    b = item.get('budgets') or budgets()
    ra = lambda vals, ctx: axm.run_named(ip, vals, ctx)
    rb = lambda vals, ctx: axm.run_positional(lp, vals, ctx)
    res = product.product(ra, rb, n, max_steps=b['max_steps'], max_paths=b['max_paths'], time_budget=b.get('time_budget', 60.0),
                          timeout_ms=b.get('timeout_ms', 3000))
    confirmed = []
    for v in res['violations']:
        ok, detail = product.confirm(ra, rb, v['args'], b['max_steps'] * 10)
        v['reproduced'] = ok
        v['replay'] = detail
        confirmed.append(ok)
    res['n_violations'] = len(res['violations'])
    out['results']['input->linearized'] = res
    if res['violations']:
        out['status'] = 'violation' if any(confirmed) else 'unreproduced'
    elif res['inconclusive']:
        out['status'] = 'inconclusive'
    out['secs'] = round(time.time() - t0, 2)
    out['src'] = r['input'].get('text')
    return out


_ex_cache = {}


def _examples(E):
    if 'r' not in _ex_cache:
        _ex_cache['r'] = E.req({'cmd': 'examples', 'asm': False})
    return _ex_cache['r']


def c05():
    tier = fw.tier()
    import axprogs
    items = [dict(it, pairs=[('shrunk', 'linearized')], per_definition=True) for it in corpus() + gen_items(tier, 'all')]
    direct = [{'name': 'axcut/' + p_['name'], 'prog': p_['prog'], 'ax': True} for p_ in axprogs.programs()]
    items += direct
    return run_tv('C05', items, "AxCut programs produced by the pipeline for the C02-C04 sets; AxM(named) x AxM(positional) where the positional "
                  "machine enforces the exact-environment discipline of every statement (kind, type, position) on every explored path")


def native_replay(st, args, detail):
    import native, tempfile, shutil
    E = e0mod.shared()
    work = tempfile.mkdtemp(prefix='c01r_')
    try:
        a = st['raw']['asm']['x86_64']
        cd = E.req({'cmd': 'cdriver', 'nargs': a['nargs'], 'dir': work})
        exe, err = native.build(a['text'], cd['driver'], cd['io'], work)
        if exe is None:
            return {'error': err}
        so, rc = native.run(exe, [to_s(x & M64) for x in args])
        ref = detail.get('reference') or {}
        want_out = ''.join(str(e[2]) + ('\n' if e[1] else '') for e in ref.get('events', []))
        want_rc = (ref.get('result') or 0) & 255
        got = so.decode('latin1') if so is not None else None
        return {'stdout': got, 'exit': rc, 'source_stdout': want_out, 'source_exit': want_rc,
                'agrees_with_source': got == want_out and rc == want_rc}
    except Exception as e:
        return {'error': f"{type(e).__name__}: {e}"}
    finally:
        shutil.rmtree(work, ignore_errors=True)


def expected_of(path):
    a = path[:-3] + '.args'
    if not os.path.exists(a):
        return None
    t = open(a).read()
    m = re.search(r'test_args\s*=\s*\[(.*?)\]', t, re.S)
    args = [int(x.strip().strip('"')) for x in m.group(1).split(',') if x.strip()]
    exp = re.search(r'expected\s*=\s*"(.*)"', t, re.S).group(1).encode().decode('unicode_escape') + '\n'
    return args, exp


def render(events):
    return ''.join(str(to_s(e[2])) + ('\n' if e[1] else '') for e in events)


def native_item(item):
    """model validation (Serval style): the corpus programs with recorded expectations are run natively, on FunM and
    on the symbolic x86-64 executor with concrete arguments; all three must agree with the expectation"""
    import native, tempfile, shutil
    out = {'name': item['name'], 'status': 'ok'}
    exp = expected_of(item['path'])
    if exp is None:
        out['status'] = 'skip'
        return out
    args, want = exp
    st = load(item, want_asm=True)
    R = runners(st)
    E = e0mod.shared()
    work = tempfile.mkdtemp(prefix='c01n_')
    try:
        a = st['raw']['asm']['x86_64']
        cd = E.req({'cmd': 'cdriver', 'nargs': a['nargs'], 'dir': work})
        exe, err = native.build(a['text'], cd['driver'], cd['io'], work)
        if exe is None:
            out.update(status='error', what=err)
            return out
        so, rc = native.run(exe, args)
        pf = product.concrete_run(R['fun'], [x & M64 for x in args], 5000000)
        px = product.concrete_run(R['x86'], [x & M64 for x in args], 50000000)
        out['native'] = (so.decode('latin1') if so is not None else None, rc)
        out['fun'] = (render(pf.events), to_s(pf.value) if pf.value is not None and is_c(pf.value) else None, pf.status)
        out['x86model'] = (render(px.events), to_s(px.value) if px.value is not None and is_c(px.value) else None, px.status, px.note)
        ok = so is not None and so.decode('latin1') == want and out['fun'][0] == want and out['x86model'][0] == want
        ok = ok and pf.status == 'done' and px.status == 'done' and (pf.value & 255) == (rc & 255) == (px.value & 255)
        if not ok:
            out['status'] = 'mismatch'
            out['want'] = want
    finally:
        shutil.rmtree(work, ignore_errors=True)
    return out


def c01():
    tier = fw.tier()
    items = [dict(it, pairs=[('fun', 'x86')]) for it in corpus() + gen_items(tier, 'sequenced') + effectful_arguments(tier) + recursive_main_items()]
    return run_tv('C01', items, "repository corpus + the effect-sequenced families + effects in argument positions (families and extended random grammar, distinct binders); FunM x symbolic execution of the printed x86-64 routine "
                  "(prologue, body, epilogue; concrete-layout mode) with the driver / print contracts of C20; exit status compared modulo 256",
                  key_fn=c02_key, pre=validate_models)


def validate_models(chk):
    res = fw.pmap(native_item, [it for it in corpus() if os.path.exists(it['path'][:-3] + '.args')])
    good = 0
    for r in res:
        if 'error' in r and 'name' not in r:
            chk.inconc(f"model validation: {r['error']}")
        elif r['status'] == 'mismatch':
            chk.inconc(f"model validation failed on {r['name']}: native={r.get('native')} fun={r.get('fun')} x86model={r.get('x86model')} want={r.get('want')!r}")
        elif r['status'] == 'error':
            chk.inconc(f"model validation on {r['name']}: {r.get('what')}")
        elif r['status'] == 'ok':
            good += 1
    chk.coverage['models_validated_against_native_runs'] = good

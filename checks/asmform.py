"""C14 (claimed in part): operand ranges for all literals / positions (Kani on the real emitters), encodability of
every printed instruction form and label hygiene on all loaded fragments and corpus programs, jump-table stride
in the layout model (dispatch / tag / invoke-target goals)."""
import os, sys, json, time, re, subprocess, shutil, tempfile, glob
ROOT = os.path.abspath(os.path.join(os.path.dirname(__file__), '..'))
for d in ('lib', 'sme', 'gen', 'checks'):
    sys.path.insert(0, os.path.join(ROOT, d))
import framework as fw
import e0 as e0mod
import shapes as S
import smerun, backend, core, oblig, gas

KANI_DIR = os.path.join(ROOT, 'kani')
EXTERNAL = {'print_i64', 'println_i64', 'cleanup'}


def run_kani(timeout_s):
    shutil.copyfile('/repo/Cargo.lock', os.path.join(KANI_DIR, 'Cargo.lock'))
    env = dict(os.environ, CARGO_NET_OFFLINE='true')
    env.pop('RUSTFLAGS', None)
    t = time.time()
    try:
        r = subprocess.run(['cargo', 'kani', '-Z', 'stubbing', '--target-dir', os.path.join(KANI_DIR, 'target'),
                            '--output-format', 'terse'], cwd=KANI_DIR, env=env, stdout=subprocess.PIPE,
                           stderr=subprocess.STDOUT, text=True, timeout=timeout_s)
        out = r.stdout
    except subprocess.TimeoutExpired as e:
        out = (e.stdout or b'').decode() if isinstance(e.stdout, bytes) else (e.stdout or '')
        out += '\nTIMEOUT'
    res = {}
    cur = None
    for line in out.split('\n'):
        m = re.match(r'^Checking harness (\S+?)\.\.\.', line)
        if m:
            cur = m.group(1)
            res[cur] = {'result': None, 'failed_checks': [], 'covers': None, 'stub': False}
            continue
        if cur is None:
            continue
        if 'Stub:' in line:
            res[cur]['stub'] = True
        m = re.match(r'^\s*\*\* (\d+) of (\d+) cover properties satisfied', line)
        if m:
            res[cur]['covers'] = (int(m.group(1)), int(m.group(2)))
        if line.startswith('Failed Checks:'):
            res[cur]['failed_checks'].append(line[len('Failed Checks:'):].strip())
        m = re.match(r'^VERIFICATION:- (\w+)', line)
        if m:
            res[cur]['result'] = m.group(1)
    return res, out, time.time() - t


def replay_x86_spill_literal(E):
    """the Kani counterexample class (literal outside imm32 into a spill slot): ask the real generator for that
    statement and hand the transliterated text to GNU as"""
    found = []
    for lit in (1 << 31, -(1 << 31) - 1, (1 << 63) - 1):
        ctx, types, stmt, info = oblig.request_for({'kind': 'lit', 'n': 7, 'lit': lit})
        r = E.fragment('x86_64', types, ctx, stmt)
        if not r.get('ok'):
            continue
        body = [l for l in r['lines'] if 'jmp k_' not in l]
        ok, msg, _ = gas.assemble('\n'.join(body))
        if not ok:
            found.append({'literal': lit, 'text': body, 'as': msg})
    return found


def corpus_files():
    fs = sorted(glob.glob('/repo/examples/*/*.sc')) + sorted(glob.glob('/repo/testsuite/success_check/*.sc'))
    fs += sorted(glob.glob('/repo/testsuite/end_to_end/*/*.sc'))
    return fs


def label_problems(isa, text):
    prog = core.Program(isa, text.split('\n'))
    probs = []
    if prog.dups:
        probs.append(f"labels defined twice: {sorted(set(prog.dups))[:5]}")
    undefined = sorted(l for l in prog.referenced_labels() if l not in prog.labels and l not in EXTERNAL)
    if undefined:
        probs.append(f"referenced but undefined labels: {undefined[:5]}")
    return probs, prog.enc_errors


TABLE_CLASH_SRC = """data A { CTOR, C }
data TYPE2 { D, E }
def mkA(p: i64): A { if p == 0 { CTOR } else { C } }
def mkB(p: i64): TYPE2 { if p == 0 { D } else { E } }
def main(a: i64, b: i64): i64 { let x: A = mkA(a); let y: TYPE2 = mkB(b); let r: i64 = x.case { CTOR => 1, C => 2 }; let s: i64 = y.case { D => 10, E => 20 }; r + s }
"""


def table_label_clash(E):
    """jump-table labels are <type>_<counter> and clause labels <type>_<counter>_<xtor>: type `A` with constructor `B_m` at
    counter n and type `A_n_B` at counter m both print `A_n_B_m`.  The counter is process-global, so the numbers are
    predicted from two preliminary compilations in this process (same program up to the two names)."""
    def numbers(src, t2):
        r = E.req({'cmd': 'stages', 'asm': True, 'src': src})
        txt = ((r.get('asm') or {}).get('x86_64') or {}).get('text') or ''
        a = re.findall(r'^A_(\d+):', txt, re.M)
        b = re.findall(r'^' + re.escape(t2) + r'_(\d+):', txt, re.M)
        return (int(a[0]), int(b[0])) if a and b else None
    mk = lambda c, t: TABLE_CLASH_SRC.replace('CTOR', c).replace('TYPE2', t)
    n1 = numbers(mk('B_1', 'A_1_B'), 'A_1_B')
    n2 = numbers(mk('B_1', 'A_1_B'), 'A_1_B')
    if not n1 or not n2:
        return None
    d = n2[0] - n1[0]
    n, m = n2[0] + d, n2[1] + d
    return mk(f'B_{m}', f'A_{n}_B')


def scan_program(item):
    E = e0mod.shared()
    req = {'cmd': 'stages', 'asm': True}
    if item.get('adaptive') == 'table-label':
        src = table_label_clash(E)
        if src is None:
            return {'name': item['name'], 'obligations': 0, 'discharged': 0, 'reports': [], 'skipped': True}
        item = dict(item, src=src)
    if 'src' in item:
        req['src'] = item['src']
    else:
        req['path'] = item['path']
    r = E.req(req)
    out = {'name': item['name'], 'obligations': 0, 'discharged': 0, 'reports': []}
    if 'asm' not in r:
        out['skipped'] = True
        return out
    work = tempfile.mkdtemp(prefix='c14_')
    try:
        for isa_name in ('x86_64', 'aarch64', 'rv64'):
            a = r['asm'].get(isa_name, {})
            if 'text' not in a:
                continue      # capacity panics (e.g. rv64 print) are outside this property
            out['obligations'] += 1
            try:
                probs, enc = label_problems(smerun.isa_by_name(isa_name), a['text'])
            except core.LoadError as e:
                out['reports'].append((f"{isa_name}/program/unparsable", f"{item['name']} ({isa_name}): {e}"[:300], {'program': item['name'], 'src': item.get('src')}))
                continue
            if probs or enc:
                key = f"{isa_name}/program/" + ('encoding' if enc else 'labels')
                if item.get('adaptive') == 'table-label' and not enc and len(probs) == 1 and re.fullmatch(r"labels defined twice: \['A_\d+_B_\d+'\]", probs[0]):
                    key = "program/labels/table-label-concatenation"
                    out['obligations'] -= 1     # the listed finding is reported by its own line, not counted as an open obligation
                out['reports'].append((key, f"{item['name']} ({isa_name}): {'; '.join(probs + enc)[:300]}",
                                       {'program': item['name'], 'src': item.get('src'), 'problems': probs, 'enc': enc}))
                continue
            if isa_name == 'x86_64':
                ok, msg, _ = gas.assemble(a['text'], work, name='p')
                if not ok:
                    out['reports'].append(("x86_64/program/assembler", f"{item['name']}: GNU as rejects the transliterated text: {msg[:200]}",
                                           {'program': item['name'], 'src': item.get('src'), 'as': msg}))
                    continue
            out['discharged'] += 1
    finally:
        shutil.rmtree(work, ignore_errors=True)
    return out


def generated_name_clashes(E):
    """programs in which a USER definition carries the printed name of a definition the compiler generates (lifted critical
    pairs print as lift_<def>__<id>): the name is found by compiling; adding the definition shifts the ids, so the
    construction is iterated (every iterate is scanned: a compiler that avoids the clash makes the sequence oscillate)"""
    import funprogs
    out = []
    for b in funprogs.lift_order()[:2]:
        src, user = b['src'], None
        for k in range(4):
            r = E.req({'cmd': 'stages', 'src': src})
            names = re.findall(r'^def (lift_\w+?)\(', (r.get('shrunk') or {}).get('text') or '', re.M)
            if user is not None:
                out.append({'name': f"names/lifted-definition-clash/{b['name']}/{k}", 'src': src})
                if names.count(user) >= 2:
                    break
            gen = [n for n in names if n != user]
            if not gen:
                break
            user = gen[0]
            src = b['src'].replace('\ndef main(', f"\ndef {user}(x: i64): i64 {{ x + 1 }}\ndef main(", 1)
    return out


def c14():
    tier = fw.tier()
    chk = fw.Check('C14', 'proof')
    e0mod.build()
    E = e0mod.shared()
    obligations = discharged = 0
    samples = []
    # (a) Kani: ranges for all literals / positions / indices
    kres, kout, ksecs = run_kani(1500 if tier == 'quick' else 5400)
    expected = ['harness::a64::load_immediate_register_all_literals', 'harness::a64::load_immediate_spill_all_literals',
                'harness::a64::offsets_and_stride', 'harness::x86::load_immediate_spill_encodable',
                'harness::x86::load_immediate_register', 'harness::x86::offsets_and_stride', 'harness::rv::offsets_and_stride']
    for h in expected:
        obligations += 1
        r = kres.get(h)
        if r is None or r['result'] is None:
            chk.inconc(f"kani harness {h} did not run to a verdict")
            continue
        if r['result'] == 'SUCCESSFUL':
            if r['covers'] is not None and r['covers'][0] != r['covers'][1]:
                chk.report(f"kani/{h}/vacuous", f"{h}: cover goals unsatisfied {r['covers']}", r)
                continue
            discharged += 1
            samples.append({'harness': h, 'result': r['result'], 'covers': r['covers'], 'stubbed_push': r['stub']})
        else:
            if h == 'harness::x86::load_immediate_spill_encodable':
                found = replay_x86_spill_literal(E)
                if found:
                    chk.report("x86_64/load_immediate/spill/imm64", f"{h}: {r['failed_checks']}; GNU as rejects `{found[0]['text'][-1].strip()}`", {'kani': r, 'replay': found})
                else:
                    chk.inconc(f"{h} failed in Kani ({r['failed_checks']}) but the assembler replay did not reproduce it")
            else:
                chk.report(f"kani/{h}", f"{h}: {r['failed_checks']}", {'kani': r, 'log_tail': kout[-1500:]})
    # (b) encodability + label hygiene on every fragment shape of the three back ends (no solver needed), and the
    #     jump-table stride through the dispatch / tag / target goals (solver)
    t0 = time.time()
    frag_cnt = 0
    for isa_name in ('x86_64', 'aarch64', 'rv64'):
        isa = smerun.isa_by_name(isa_name)
        shapes = backend.functional_shapes(isa_name, tier) + backend.heap_shapes(isa_name, tier)
        for sh in shapes:
            ctx, types, stmt, info = oblig.request_for(sh)
            r = E.fragment(isa_name, types, ctx, stmt)
            obligations += 1
            frag_cnt += 1
            if not r.get('ok'):
                chk.report(f"{isa_name}/{sh['kind']}/panic", f"{isa_name} {sh}: code generator panicked: {r.get('panic')}", {'shape': sh, 'resp': r})
                continue
            try:
                probs, enc = label_problems(isa, '\n'.join(r['lines']))
            except core.LoadError as e:
                chk.report(f"{isa_name}/{sh['kind']}/unparsable", f"{isa_name} {sh}: {e}", {'shape': sh, 'text': r['lines']})
                continue
            undefined_ok = [p for p in probs if not p.startswith('referenced but undefined')]
            if undefined_ok or enc:
                chk.report(f"{isa_name}/{sh['kind']}/" + ('encoding' if enc else 'labels'),
                           f"{isa_name} {json.dumps(sh)}: {'; '.join(undefined_ok + enc)[:300]}", {'shape': sh, 'text': r['lines'], 'problems': probs, 'enc': enc})
                continue
            discharged += 1
    frag_s = time.time() - t0
    items = []
    for isa_name in ('x86_64', 'aarch64', 'rv64'):
        sw = [s_ for s_ in S.switch_shapes(isa_name, tier, [0, 1]) if len(s_['clauses']) > 1]
        sw += [{'kind': 'switch', 'p': 0, 'clauses': [[], ['ext'], [], ['ext'], []]}]
        inv = [s_ for s_ in S.misc_shapes(isa_name, tier) if s_['kind'] == 'invoke']
        lets = [s_ for s_ in S.let_shapes(isa_name, tier, [0, 1]) if s_['nxtors'] > 1]
        meth = [s_ for s_ in S.method_shapes(isa_name, tier, [0, 1]) if len(s_['methods']) > 1]
        items += backend.items_for(isa_name, sw + inv + lets + meth, 3, ['functional'], 120000)
    results = fw.pmap(smerun.run_item, items, order_seed=fw.seed())
    cnt, smp = smerun.aggregate(chk, results, backend.key_of, backend.what_of)
    obligations += cnt['obligations']
    discharged += cnt['discharged']
    samples += smp[:3]
    # (c) whole programs through the pipeline (repository corpus + generated families + typed random programs):
    #     labels defined once / references defined / label characters, encodability, GNU as on the x86-64 text
    import tv
    pitems = [{'name': os.path.basename(f), 'path': f} for f in corpus_files()] + tv.gen_items(tier, 'all') + generated_name_clashes(E) + [{'name': 'names/table-label-clash', 'adaptive': 'table-label'}]
    pres = fw.pmap(scan_program, pitems, order_seed=fw.seed())
    progs = 0
    for r in pres:
        if 'error' in r and 'name' not in r:
            chk.inconc(f"program scan machinery error: {r['error']}")
            continue
        if r.get('skipped'):
            continue
        progs += 1
        obligations += r['obligations']
        discharged += r['discharged']
        for key, what, obj in r['reports']:
            chk.report(key, what, obj)
    chk.coverage.update({
        'obligations': obligations, 'discharged': discharged, 'checker_cmd': f"bin/check C14 --tier {tier}",
        'trusted_base': ["encodability rules per instruction form in the SME parsers (imm32 / imm12 / imm16 / scaled offsets)",
                         "fixed jump sizes (x86-64 E9 rel32 = 5 bytes, AArch64 B = RV64 JAL = 4 bytes)",
                         "Kani 0.68 / CBMC 6.11 with unwinding checks on; Vec::push stubbed by a recorder (listed per harness)",
                         "GNU as as the stand-in assembler for the x86-64 replay (syntax-only transliteration from NASM)"],
        'evaluations': obligations, 'distinct_nontrivial': obligations,
        'rule': "7 Kani harnesses (all 2^64 literals x all spill positions / registers; all positions and field indices; "
                "jump_length(n) = n * stride up to the capacity); every fragment shape of C06-C08 parsed for encodability and "
                "duplicate labels; dispatch/tag/target goals through the layout model; whole programs end to end (corpus, generated "
                "families incl. nested type arguments and generated-looking names, typed random programs) on the three back ends",
        'samples': samples, 'kani_seconds': round(ksecs, 1), 'fragments_parsed': frag_cnt, 'fragment_seconds': round(frag_s, 1),
        'corpus_programs': progs, 'solver_queries': cnt['queries'], 'solver_seconds': cnt['solver_s'],
        'not_claimed': "no user identifier collides with a runtime or generated symbol, for all identifiers (label-forming code is format!/String, not encodable; exercised on the corpus, the generated-looking-name families and two adaptively constructed clashes: lifted-definition names and table-label concatenation)",
        'exhaustive': True,
    })
    chk.assumptions += ["capacity notes: AArch64 add_and_jump immediate limits a codata type to 1023 destructors, RV64 to 511"]
    return chk.finish()

"""Worker and aggregation for SME per-statement obligations (C06-C11, C13, parts of C14)."""
import os, sys, time, json
ROOT = os.path.abspath(os.path.join(os.path.dirname(__file__), '..'))
for d in ('lib', 'sme'):
    sys.path.insert(0, os.path.join(ROOT, d))
import z3
import e0 as e0mod
import framework as fw
import core, oblig, solve
from bv import *  # noqa


def isa_by_name(name):
    if name == 'x86_64':
        import x86
        return x86
    if name == 'aarch64':
        import a64
        return a64
    if name == 'rv64':
        import rv64
        return rv64
    raise ValueError(name)


def goal_class(name):
    """coarse class of a goal name, used for attribution to properties"""
    if name.startswith("I'.") or name.startswith('frame.fields'):
        return 'heap'
    if name.startswith('C10.') or name.startswith('frontier.'):
        return 'footprint'
    return 'functional'


def concrete_replay(isa, ob, lab, model):
    """re-run the fragment on the concrete pre-state of the model (no merging, no solver) and compare the
    exit state with the symbolic one evaluated under the model.  Returns (reproduced: bool, detail)."""
    env0, pre = ob.extra['env'], ob.extra['pre']

    def ev(t):
        if isinstance(t, int):
            return t
        v = model.eval(bv(t), model_completion=True)
        return v.as_long()
    env = core.Env(isa, env0.N, sp_class=env0.sp_class, H=ev(env0.H))
    env.stack_hi = env0.stack_hi
    st = core.State(env)
    for r, v in pre.regs.items():
        st.regs[r] = ev(v)
    st.mem = [[ev(w) for w in row] for row in pre.mem]
    for off, v in env0._stack_init.items():
        env._stack_init[off] = ev(v)
    for key, v in env0._label_addr.items():
        env._label_addr[key] = ev(v)
    prog = core.Program(isa, ob.text)
    try:
        exits = core.run(prog, st, entry=ob.extra.get('entry', 0))
    except core.LoadError as e:
        return False, f"concrete run: {e}"
    faults = [r for r, c in env.faults if c is True]
    live = {k: s for k, s in exits.items() if s.pc is True}
    detail = {'faults': faults, 'exits': sorted(live)}
    if lab is None:
        return (len(faults) > 0), detail
    if lab not in live:
        return (lab in ob.unexpected and False), detail
    s_sym = ob.extra['exit_states'].get(lab)
    if s_sym is None:
        return True, detail   # reached an unexpected exit concretely
    s_con = live[lab]
    diffs = []
    for r in s_con.regs:
        a, b = s_con.regs[r], s_sym.regs[r]
        if isinstance(a, int) and not (str(b).startswith('clob_') or 'clob_' in str(b)):
            try:
                if ev(b) != a:
                    diffs.append(r)
            except Exception:
                pass
    for b in range(env.N):
        for w in range(8):
            if isinstance(s_con.mem[b][w], int) and ev(s_sym.mem[b][w]) != s_con.mem[b][w]:
                diffs.append(f"m[{b}][{w}]")
    detail['symbolic_vs_concrete_diffs'] = diffs
    return len(diffs) == 0, detail


def native_replay(isa, ob, lab, model):
    """x86-64 only: run the fragment on the real CPU from the model's pre-state and compare the dumped state with the
    exit state the SME predicts under the model.  Returns dict(agrees: bool | None, ...)"""
    if isa.NAME != 'x86_64' or lab is None or lab.startswith('<') and lab != '<computed>':
        return None
    import fragnative
    env0, pre = ob.extra['env'], ob.extra['pre']
    s_sym = ob.extra['exit_states'].get(lab)
    if s_sym is None:
        return None

    def ev(t):
        if isinstance(t, int):
            return t
        return model.eval(bv(t), model_completion=True).as_long()

    def has_fresh(t):
        return (not isinstance(t, int)) and ('!' in str(t))
    prog = core.Program(isa, ob.text)
    label_vals = {ev(v): k for k, v in env0._label_addr.items() if k in prog.labels}
    sym_values = {}      # pre-state words are plain variables: none of them is a code address (the invoke table is set by location)
    loc_syms = {}
    skip_names = []
    entry = None
    eidx = ob.extra.get('entry', 0)
    if eidx:
        if prog.ins[eidx].op == 'label':
            entry = (prog.ins[eidx].a[0], 0)
        else:
            for tname, ents in prog.tables.items():
                if eidx in ents:
                    entry = (tname, isa.FIXED_JUMP_SIZE * ents.index(eidx))
        if entry is None:
            return {'agrees': None, 'error': 'entry point is not addressable natively'}
    if ob.shape.get('kind') == 'invoke':
        # the closure's second temporary holds the (external) method table address: point it at the harness's landing table
        n_ = ob.shape['n']
        loc = ob.extra['locs'][n_ - 1][1]
        loc_syms[('reg', loc.reg) if loc.reg is not None else ('stk', loc.off)] = fragnative.EXIT_TABLE
        if loc.reg is None:
            env0.stack_init(loc.off)
        skip_names.append(str(loc.pre(pre)))
    sym_values.pop(0, None)
    regs = {r: ev(v) for r, v in pre.regs.items()}
    stack = {off: ev(v) for off, v in env0._stack_init.items() if 0 <= off < env0.stack_hi}
    heap_words = [[ev(w) for w in row] for row in pre.mem]
    exits = sorted(l for l in prog.referenced_labels() if l not in prog.labels and l not in ('print_i64', 'println_i64'))
    out = fragnative.build_and_run(ob.text, regs, stack, ev(env0.H), heap_words, exits, spill_bytes=env0.stack_hi, sym_values=sym_values, loc_syms=loc_syms, entry=entry)
    if 'error' in out:
        return {'agrees': None, 'error': out['error']}
    if out.get('crashed'):
        return {'agrees': None, 'crashed': True, 'note': 'the native run crashed (e.g. wild pointer): consistent with a fault, not comparable'}
    diffs = []
    if lab == '<computed>':
        nd, pos = ob.shape.get('ndtors', 2), ob.shape.get('tagpos', 1)
        want = 100 + (pos if nd > 1 else 0)
        if out.get('exit_id') != want:
            diffs.append(f"computed jump landed at table entry {out.get('exit_id')}, expected {want}")
    elif out.get('exit_id') is None or out['exit_id'] < 0 or out['exit_id'] >= len(exits) or exits[out['exit_id']] != lab:
        diffs.append(f"exit {out.get('exit_id')} instead of {lab}")

    def differs(native, v, t):
        # a term that mentions a label address may or may not evaluate to a code address under the model (the label
        # values of the model are arbitrary 64-bit numbers): accept the raw value as well as its native translation
        if native == v:
            return False
        return native != expect(v, t)

    def expect(v, t=None):
        # only terms that mention a label-address variable denote code addresses
        if t is None or isinstance(t, int) or 'A_' not in str(t):
            return v
        for base, name in label_vals.items():
            d = (v - base) & M64          # label addresses are arbitrary 64-bit values in the model: compare modulo 2^64
            if d < 64 and name in out['syms']:
                return out['syms'][name] + d
        return v
    if out.get('spdelta') != s_sym.spd:
        diffs.append(f"sp delta {out.get('spdelta')} vs {s_sym.spd}")
    for r, t in s_sym.regs.items():
        if has_fresh(t) or any(nm in str(t) for nm in skip_names):
            continue
        if differs(out['regs'][r], ev(t), t):
            diffs.append(f"{r}: native {out['regs'][r]:#x}, predicted {expect(ev(t), t):#x}")
    for b in range(env0.N):
        for w in range(8):
            t = s_sym.mem[b][w]
            if has_fresh(t):
                continue
            if differs(out['heap'][8 * b + w], ev(t), t):
                diffs.append(f"heap[{b}][{w}]: native {out['heap'][8 * b + w]:#x}, predicted {expect(ev(t)):#x}")
    for o, t in s_sym.stack.items():
        if 0 <= o < env0.stack_hi and not has_fresh(t) and o in out['stack']:
            if differs(out['stack'][o], ev(t), t):
                diffs.append(f"stack[{o}]: native {out['stack'][o]:#x}, predicted {expect(ev(t)):#x}")
    if len(out['events']) != len(s_sym.events):
        diffs.append(f"{len(out['events'])} print calls vs {len(s_sym.events)}")
    else:
        for (code, arg, align), e in zip(out['events'], s_sym.events):
            if (code == 2) != (e[0] == 'println_i64') or arg != ev(e[1]):
                diffs.append("print event differs")
    return {'agrees': not diffs, 'diffs': diffs[:8], 'exit': out.get('exit_id'), 'events': out['events'][:4]}


def splits_for(isa, shape, N):
    """exhaustive case split on the block index of the pointers the fragment dereferences as store/load bases"""
    k = shape['kind']
    if shape.get('nosplit'):
        return None
    if k == 'switch':
        p = shape['p']
        vals = list(range(N - 1))
        if any(len(c) == 0 for c in shape['clauses']):
            vals = [None] + vals
        return [{str(p): b} for b in vals]
    if k == 'method':
        if len(shape['env']) == 0:
            return None
        return [{str(len(shape['methods'][shape['i']])): b} for b in range(N - 1)]
    if k in ('let', 'create'):
        args = shape['args'] if k == 'let' else shape['env']
        if len(args) == 0:
            return None
        return [{'heap': h} for h in range(N - 1)]
    return None


def run_item(item):
    """item: dict(isa, shape, N, classes (goal classes to discharge or None), timeout_ms)"""
    t0 = time.time()
    isa = isa_by_name(item['isa'])
    E = e0mod.shared()
    out = {'isa': item['isa'], 'shape': item['shape'], 'N': item['N'], 'queries': [], 'enc_errors': [], 'notes': [],
           'nqueries': 0, 'solver_s': 0.0}
    splits = splits_for(isa, item['shape'], item['N']) if item.get('split', True) else None
    cases = splits if splits else [None]
    out['cases'] = len(cases)
    reached = {}
    pre_sat = False
    status = 'ok'
    for sp in cases:
        shape = dict(item['shape'])
        if sp is not None:
            shape['split'] = sp
        ob = oblig.build(isa, E, shape, item['N'], sp_class=item.get('sp_class', isa.BODY_SP_CLASS))
        if ob.load_error:
            out.update(status='load_error', what=ob.load_error, text=ob.text, secs=time.time() - t0)
            return out
        out['enc_errors'] = ob.extra.get('enc_errors', [])
        out['notes'] = ob.notes[:5]
        classes = item.get('classes')
        if classes is not None:
            ob.exits = {lab: (pc, [(n, g) for n, g in goals if goal_class(n) in classes]) for lab, (pc, goals) in ob.exits.items()}
        rs = solve.discharge(ob, timeout_ms=item.get('timeout_ms', 120000), case_mode=sp is not None)
        for r in rs:
            q = r.to_json()
            if sp is not None:
                q['case'] = sp
            out['queries'].append(q)
            if r.name == 'pre.satisfiable' and r.verdict == 'sat':
                pre_sat = True
            if r.name.startswith('reach:'):
                reached[r.name] = reached.get(r.name, False) or r.verdict == 'sat'
        out['nqueries'] += len(rs)
        out['solver_s'] = round(out['solver_s'] + sum(r.secs for r in rs), 3)
        bad = [r for r in rs if not r.ok]
        if not bad and item.get('native_validate') and isa.NAME == 'x86_64':
            # model validation against the real CPU: the reachability witness of every exit is replayed natively and the
            # dumped state compared with the state the ISA table predicts
            for r in rs:
                if r.name.startswith('reach:') and r.verdict == 'sat' and r.model is not None:
                    try:
                        nat = native_replay(isa, ob, r.name.split(':', 1)[1], r.model)
                    except Exception as e:
                        nat = {'agrees': None, 'error': f"{type(e).__name__}: {e}"}
                    if nat is None:
                        continue
                    out.setdefault('native_validation', []).append({'exit': r.name, 'agrees': nat.get('agrees'), 'diffs': nat.get('diffs'), 'error': nat.get('error'), 'crashed': nat.get('crashed')})
        if not bad:
            continue
        if all(r.inconclusive for r in bad):
            status = 'inconclusive'
            out['what'] = bad[0].name
            continue
        r = [r for r in bad if not r.inconclusive][0]
        out['failed'] = r.name
        if sp is not None:
            out['failed_case'] = sp
        if r.expect == 'sat':
            out.update(status='vacuous', what=f"{r.name}: expected reachable, solver says unsat", text=ob.text)
        else:
            lab = r.name.split(':')[1] if r.name.startswith(('goal:', 'unexpected:')) else None
            ok, detail = concrete_replay(isa, ob, lab, r.model)
            try:
                nat = native_replay(isa, ob, lab, r.model) if ok else None
            except Exception as e:
                nat = {'agrees': None, 'error': f"{type(e).__name__}: {e}"}
            if nat is not None:
                detail['native'] = nat
                if nat.get('agrees') is False:
                    ok = False      # the real CPU does not do what the ISA table predicts on this input: the model is wrong
            out['status'] = 'violation' if ok else 'unreproduced'
            out['replay'] = detail
            out['model'] = oblig.describe_model(ob, lab, r.model)
            out['text'] = ob.text
            if r.name == 'fault':
                env = ob.extra['env']
                out['fault_reasons'] = [reason for reason, c in env.faults
                                        if z3.is_true(r.model.eval(bb(c), model_completion=True))]
        out['secs'] = round(time.time() - t0, 3)
        return out
    if status == 'ok':
        if not pre_sat:
            status = 'vacuous'
            out['what'] = 'precondition unsatisfiable in every case'
        for name, ok in reached.items():
            if not ok:
                status = 'vacuous'
                out['what'] = f"{name}: exit unreachable in every case"
    out['status'] = status
    out['secs'] = round(time.time() - t0, 3)
    return out


def aggregate(chk, results, key_fn, what_fn=None):
    """feed results into a framework.Check; returns summary counters"""
    cnt = {'obligations': 0, 'discharged': 0, 'queries': 0, 'solver_s': 0.0, 'vacuity_witnesses': 0}
    samples = []
    for r in results:
        cnt['obligations'] += 1
        if 'error' in r:
            chk.inconc(f"machinery error on {r.get('item')}: {r['error']}")
            continue
        cnt['queries'] += r.get('nqueries', 0)
        cnt['solver_s'] += r.get('solver_s', 0.0)
        cnt['vacuity_witnesses'] += sum(1 for q in r['queries'] if q['expect'] == 'sat' and q['verdict'] == 'sat')
        st = r['status']
        for nv in r.get('native_validation', []):
            cnt['native_validated'] = cnt.get('native_validated', 0) + (1 if nv['agrees'] else 0)
            if nv['agrees'] is False:
                chk.inconc(f"ISA model disagrees with the real CPU on {r['isa']} {r['shape']} {nv['exit']}: {nv['diffs']}")
            elif nv['agrees'] is None:
                cnt['native_not_comparable'] = cnt.get('native_not_comparable', 0) + 1
        if st == 'ok':
            cnt['discharged'] += 1
            if len(samples) < 6:
                samples.append({'isa': r['isa'], 'shape': r['shape'], 'N': r['N'], 'queries': r['queries']})
        elif st in ('inconclusive', 'unreproduced'):
            chk.inconc(f"{r['isa']} {r['shape']}: {st} {r.get('what') or r.get('failed')}")
        else:
            key = key_fn(r)
            what = (what_fn(r) if what_fn else None) or f"{r['isa']} {json.dumps(r['shape'])}: {st} {r.get('failed') or r.get('what')}"
            chk.report(key, what, r)
    cnt['solver_s'] = round(cnt['solver_s'], 1)
    # headroom against the per-query time limit: the slowest queries of the run
    slow = sorted(((q['s'], r['isa'], json.dumps(r['shape']), r['N'], q['q']) for r in results if 'queries' in r for q in r['queries']), reverse=True)[:8]
    cnt['slowest_queries'] = [{'s': s_, 'isa': i_, 'shape': sh_, 'N': n_, 'q': q_} for s_, i_, sh_, n_, q_ in slow]
    return cnt, samples

"""C06-C11: per-statement simulation obligations on the real emitted code (SME + z3)."""
import os, sys, json, time
ROOT = os.path.abspath(os.path.join(os.path.dirname(__file__), '..'))
for d in ('lib', 'sme', 'gen', 'checks'):
    sys.path.insert(0, os.path.join(ROOT, d))
import framework as fw
import e0 as e0mod
import shapes as S
import smerun

TRUSTED = [
    "ISA semantics tables of the SME (sme/x86.py, sme/a64.py, sme/rv64.py) and the layout model (fixed-size table jumps)",
    "representation relation and heap invariant I (sme/heap.py), AxCut step rules as Spec (sme/oblig.py)",
    "external-call havoc model (caller-saved registers, flags, stack below sp)",
    "z3 5.1 (QF_BV), python glue, E0 extract crate (calls the real code generator)",
    "paper arguments of DESIGN.md section 7: composition of steps, frame property for heaps larger than N",
]
ASSUME = [
    "heap universe of N 64-byte blocks at a concrete base address 0x100000; frontier + acquisitions <= N-1 (enough heap)",
    "division operands satisfy the property's precondition (divisor != 0, not MIN / -1)",
    "typing facts of linear AxCut at the statement (scrutinee layout = constructor's argument kinds; tag = stride * index)",
    "print runtime preserves callee-saved registers, the heap and the caller's frame at or above sp",
]


def key_of(r):
    sh = r['shape']
    failed = r.get('failed') or r.get('what') or ''
    g = failed.split(':')[-1].split('[')[0]
    return f"{r['isa']}/{sh['kind']}/{r['status']}/{g}"


def what_of(r):
    sh = r['shape']
    extra = ''
    if r.get('fault_reasons'):
        extra = ' faults=' + '; '.join(r['fault_reasons'][:3])
    return f"{r['isa']} {sh['kind']} shape {json.dumps({k: v for k, v in sh.items() if k != 'kind'})}: {r['status']} at {r.get('failed') or r.get('what')}{extra}"


def min_universe(sh):
    """smallest universe in which the shape's precondition is satisfiable: the blocks of the object(s) it builds or
    takes apart, one block on the linear list and the frontier block"""
    import heap
    k = sh['kind']
    if k in ('let', 'create'):
        return len(heap.chain_layout(sh['args'] if k == 'let' else sh['env'])) + 2
    if k == 'switch':
        return max(len(heap.chain_layout(c)) for c in sh['clauses']) + 2
    if k == 'method':
        return len(heap.chain_layout(sh['env'])) + 2
    return 2


def items_for(isa, shapes, N, classes, timeout_ms):
    return [{'isa': isa, 'shape': sh, 'N': max(N, min_universe(sh)), 'classes': classes, 'timeout_ms': timeout_ms} for sh in shapes]


def run_items(chk, items, rule, extra_cov=None):
    e0mod.build()
    t = time.time()
    # every 12th x86-64 obligation also validates the ISA table against the real CPU (native replay of its witnesses)
    k = 0
    for it in items:
        if it['isa'] == 'x86_64':
            k += 1
            if k % 12 == 0:
                it['native_validate'] = True
    results = fw.pmap(smerun.run_item, items, order_seed=fw.seed())
    cnt, samples = smerun.aggregate(chk, results, key_of, what_of)
    kinds = {}
    for it in items:
        k = (it['isa'], it['shape']['kind'], it['N'])
        kinds[k] = kinds.get(k, 0) + 1
    enc = sorted({e for r in results for e in r.get('enc_errors', [])})
    chk.coverage.update({
        'obligations': cnt['obligations'], 'discharged': cnt['discharged'],
        'checker_cmd': f"bin/check {chk.pid} --tier {fw.tier()}",
        'trusted_base': TRUSTED,
        'evaluations': cnt['obligations'], 'distinct_nontrivial': cnt['obligations'],
        'rule': rule, 'samples': samples,
        'solver_queries': cnt['queries'], 'solver_seconds': cnt['solver_s'],
        'vacuity_witnesses_sat': cnt['vacuity_witnesses'],
        'slowest_queries': cnt.get('slowest_queries'), 'query_time_limit_s': max((it['timeout_ms'] for it in items), default=0) / 1000,
        'isa_table_validated_natively': {'witness_states_agreeing_with_the_real_cpu': cnt.get('native_validated', 0),
                                         'not_comparable': cnt.get('native_not_comparable', 0)},
        'per_kind': [{'isa': k[0], 'kind': k[1], 'N': k[2], 'shapes': v} for k, v in sorted(kinds.items())],
        'functions_encoded': "code emitted by axcut2backend::statements::*::code_statement with the Instructions/Memory/"
                             "ParallelMoves/Utils implementations of the back end, printed by impl Print/Display for Code",
        'exhaustive': True,
        'wall_pool_s': round(time.time() - t, 1),
    })
    if enc:
        chk.coverage['encoding_notes_owned_by_C14'] = enc[:10]
    if extra_cov:
        chk.coverage.update(extra_cov)
    chk.assumptions += ASSUME
    return results


def tiered(isa, fn, classes, to, n_quick=5, dn=0, **kw):
    """quick: the quick shape set in a universe of n_quick blocks; thorough: the quick shape set in n_quick + 1 blocks
    plus the extended shape set (all kinds, all windows, larger arities) in n_quick blocks"""
    if fw.tier() == 'quick':
        return items_for(isa, fn(isa, 'quick', **kw), n_quick + dn, classes, to)
    return items_for(isa, fn(isa, 'quick', **kw), n_quick + 1 + dn, classes, to) + items_for(isa, fn(isa, 'thorough', **kw), n_quick + dn, classes, to)


def functional_shapes(isa, tier):
    sh = []
    sh += S.lit_shapes(isa, tier) + S.op_shapes(isa, tier) + S.ifc_shapes(isa, tier) + S.misc_shapes(isa, tier)
    sh += S.print_shapes(isa, tier)
    return sh


def heap_shapes(isa, tier):
    sh = S.let_shapes(isa, tier) + S.switch_shapes(isa, tier) + S.create_shapes(isa, tier) + S.method_shapes(isa, tier)
    return sh


def substitute_moves(isa, tier):
    """maps between integer variables only (no heap effect): all maps m, n <= 3 (thorough: <= 4) over the windows of
    substitute_shapes plus the all-spill window"""
    mx = 3 if tier == 'quick' else 4
    out = [s_ for s_ in S.substitute_shapes(isa, 'quick' if tier == 'quick' else 'thorough', mx, mx) if all(k == 'ext' for k in s_['old'])]
    deep = S.DEEP[isa]
    if deep is not None:
        have = {(s_['p'], tuple(s_['map']), len(s_['old'])) for s_ in out}
        for s_ in list(out):
            k = (deep, tuple(s_['map']), len(s_['old']))
            if k not in have and deep + max(len(s_['map']), len(s_['old'])) <= S.MAXVARS[isa]:
                have.add(k)
                out.append(dict(s_, p=deep))
    return out


def codegen_check(pid, isa, kani=None, kani_s=0.0):
    tier = fw.tier()
    chk = fw.Check(pid, 'proof')
    kani_samples = []
    for h, r in (kani or []):
        if r is None or r['result'] is None:
            chk.inconc(f"kani harness {h} did not run to a verdict")
        elif r['result'] != 'SUCCESSFUL':
            chk.report(f"kani/{h}", f"{h}: {r['failed_checks']} (literal synthesis: some 64-bit literal is not loaded exactly)", {'kani': r})
        elif r['covers'] is not None and r['covers'][0] != r['covers'][1]:
            chk.report(f"kani/{h}/vacuous", f"{h}: cover goals unsatisfied", {'kani': r})
        else:
            kani_samples.append({'harness': h, 'result': r['result'], 'covers': r['covers']})
    to = 120000 if tier == 'quick' else 1800000
    items = items_for(isa, functional_shapes(isa, tier), 4, None, to)
    # quick: the heap-consistency goals (I', frame of fields) of these shapes are discharged under C09, the footprint
    # goals under C10; here: fault-freedom, dispatch, loaded / stored values, preserved variables.  thorough: all goals
    items += tiered(isa, heap_shapes, ['functional'] if tier == 'quick' else None, to)
    # explicit substitutions move values between positions (parallel moves through the scratch registers): the assignment
    # goals belong to semantic preservation; the sharing / erasing side of it is discharged under C11 and C09
    items += items_for(isa, substitute_moves(isa, tier), 4, ['functional'], to)
    run_items(chk, items,
              rule="shapes enumerated exhaustively inside the stated windows/arity/kind bounds (gen/shapes.py); every shape is a "
                   "distinct emitted code fragment; per shape the solver decides fault-freedom, Spec and I' for all data")
    whole_program(chk, {'x86_64': 'x86', 'aarch64': 'aarch64', 'rv64': 'rv64'}[isa])
    if kani is not None:
        chk.coverage['kani'] = {'harnesses': kani_samples, 'seconds': round(kani_s, 1),
                                'claim': 'all 2^64 literals x every register / every spill slot: value exact, operands in range'}
        chk.coverage['obligations'] += len(kani)
        chk.coverage['discharged'] += len(kani_samples)
    return chk.finish()


def whole_program(chk, key):
    """composition of the per-statement steps: AxM(positional) on the linearised program x symbolic execution of the whole
    printed routine (labels across definitions, jump tables, prologue / epilogue), main's parameters symbolic"""
    import tv
    items = [dict(it, pairs=[('linearized', key)]) for it in tv.corpus() + tv.gen_items(fw.tier(), 'sequenced')]
    res = fw.pmap(tv.stage_item, items, order_seed=fw.seed())
    progs = pairs = cut = skipped = 0
    for r in res:
        if 'error' in r and 'name' not in r:
            chk.inconc(f"whole-program machinery error: {r['error']}")
            continue
        for k, v in r.get('results', {}).items():
            if 'skipped' in v:
                skipped += 1
                continue
            progs += 1
            pairs += v['pairs']
            cut += v['cut']
            for viol in v['violations']:
                if viol.get('reproduced'):
                    chk.report(f"{key}/program/{viol['kind']}", f"{r['name']} {k}: {viol['kind']} {viol.get('note') or ''} args={viol['args']}"[:300],
                               {'program': r['name'], 'src': r.get('src'), 'violation': viol})
                else:
                    chk.inconc(f"{r['name']} {k}: counterexample {viol['args']} did not reproduce concretely")
            for w in v['inconclusive']:
                chk.inconc(f"{r['name']} {k}: {w}")
    chk.coverage['whole_program'] = {'programs': progs, 'path_pairs_decided': pairs, 'paths_cut_by_budget': cut,
                                     'programs_without_code_for_this_back_end': skipped}


def c06():
    return codegen_check('C06', 'x86_64')


def c07():
    # every 64-bit literal: Kani harnesses over the real load_immediate (register and any spill slot)
    import asmform
    kres, kout, ksecs = asmform.run_kani(1500)
    extra = []
    for h in ('harness::a64::load_immediate_register_all_literals', 'harness::a64::load_immediate_spill_all_literals'):
        r = kres.get(h)
        extra.append((h, r))
    return codegen_check('C07', 'aarch64', kani=extra, kani_s=ksecs)


def c08():
    return codegen_check('C08', 'rv64')


ISAS = ['x86_64', 'aarch64', 'rv64']


def c09():
    tier = fw.tier()
    chk = fw.Check('C09', 'proof')
    to = 120000 if tier == 'quick' else 1800000
    items = []
    for isa in ISAS:
        # quick tier: the store side of create and the load side of method entry repeat let / switch, so they get the
        # smaller universe; let / switch / substitute keep N
        items += tiered(isa, lambda i, t: S.let_shapes(i, t) + S.switch_shapes(i, t), ['heap'], to)
        items += tiered(isa, lambda i, t: S.create_shapes(i, t) + S.method_shapes(i, t), ['heap'], to, dn=-1 if tier == 'quick' else 0)
        items += tiered(isa, lambda i, t: S.substitute_shapes(i, t, 2, 2), ['heap'], to)
    run_items(chk, items, rule="every allocating / loading / substituting statement shape; pre-state = arbitrary heap satisfying I; "
                               "goals = fault-freedom + I' (states, lists, typed fields, exact reference counts) + field frame")
    return chk.finish()


def c10():
    tier = fw.tier()
    chk = fw.Check('C10', 'proof')
    N = 5
    to = 120000 if tier == 'quick' else 1800000
    items = []
    for isa in ISAS:
        # the footprint clauses presuppose the heap invariant (a leaked block also breaks the bound), so both
        # classes are discharged for the allocating shapes; loads get the footprint class (frontier unchanged) and
        # the heap class on the multi-block shapes (every block of a released object must return to a free list)
        items += items_for(isa, S.let_shapes(isa, tier), N, ['footprint', 'heap'], to)
        items += items_for(isa, S.create_shapes(isa, tier), N - 1 if tier == 'quick' else N, ['footprint', 'heap'], to)
        sw = S.switch_shapes(isa, tier)
        items += items_for(isa, [s_ for s_ in sw if max(len(c) for c in s_['clauses']) > 3], N, ['footprint', 'heap'], to)
        items += items_for(isa, [s_ for s_ in sw if max(len(c) for c in s_['clauses']) in (1, 3)], N, ['footprint'], to)
    run_items(chk, items, rule="allocation shapes: frontier moves only when both free lists are exhausted, by at most one block per "
                               "acquisition, and leaves exactly the bumped block on the linear list; loads never move it")
    return chk.finish()


def c11():
    tier = fw.tier()
    chk = fw.Check('C11', 'proof')
    N = 5
    to = 120000 if tier == 'quick' else 1800000
    items = []
    for isa in ISAS:
        if tier == 'quick':
            # all maps m, n <= 3 in a universe of 4 blocks, and the m, n <= 2 subset again in 5 blocks
            items += items_for(isa, S.substitute_shapes(isa, tier, 3, 3), N - 1, None, to)
            items += items_for(isa, S.substitute_shapes(isa, tier, 2, 2), N, None, to)
        else:
            # the quick set, then all maps m, n <= 2 with three kinds over all windows in 5 and in 6 blocks, and all maps
            # m, n <= 4 of integer variables (no heap effect) in 4 blocks.  (All maps <= 3 x three kinds x all windows in 5
            # blocks - 21 000 shapes - was the first thorough set; it did not finish within the session's run limits while
            # other runs shared the machine, so the tier was cut back to what was run to completion: see DESIGN 11.3.)
            items += items_for(isa, S.substitute_shapes(isa, 'quick', 3, 3), N - 1, None, to)
            items += items_for(isa, S.substitute_shapes(isa, 'quick', 2, 2), N, None, to)
            items += items_for(isa, S.substitute_shapes(isa, 'thorough', 2, 2), N, None, to)
            items += items_for(isa, S.substitute_shapes(isa, 'thorough', 2, 2), N + 1, None, to)
            items += items_for(isa, [s_ for s_ in S.substitute_shapes(isa, 'quick', 4, 4) if all(k == 'ext' for k in s_['old']) and (len(s_['old']) == 4 or len(s_['map']) == 4)], N - 1, None, to)
    run_items(chk, items, rule="all maps from m new to n old variables (m, n <= bound), all kind assignments, windows: all-register, "
                               "straddling the register/spill boundary, all-spill")
    return chk.finish()

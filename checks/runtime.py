"""C20: runtime contract - print_i64/println_i64 for every int64, driver argument passing and exit status.
Engine E5a: the real io.c and the real generated driver<n>.c are lowered with clang -O0 and executed
symbolically from their LLVM IR (llir/ir.py, integer encoding with explicit wrap-around)."""
import os, sys, json, time, subprocess, shutil, tempfile, re
ROOT = os.path.abspath(os.path.join(os.path.dirname(__file__), '..'))
for d in ('lib', 'sme', 'gen', 'checks', 'llir'):
    sys.path.insert(0, os.path.join(ROOT, d))
import z3
import framework as fw
import e0 as e0mod
import ir
from ir import IntV, PtrV

I64MIN, I64MAX = -(1 << 63), (1 << 63) - 1


def lower(cfile, workdir):
    out = os.path.join(workdir, os.path.basename(cfile)[:-2] + '.ll')
    r = subprocess.run(['clang', '-O0', '-S', '-emit-llvm', '-Xclang', '-disable-O0-optnone', cfile, '-o', out],
                       stdout=subprocess.PIPE, stderr=subprocess.STDOUT, text=True)
    if r.returncode != 0:
        raise RuntimeError(f"clang failed on {cfile}: {r.stdout[-500:]}")
    return open(out).read()


# ------------------------------------------------------------------ externs (documented contracts only)

def ext_write(ex, path, vals):
    fd, p, n = vals
    if not ir.is_c(n.t):
        sn = z3.simplify(n.t)
        if z3.is_int_value(sn):
            n = IntV(64, sn.as_long())
    if not ir.is_c(n.t):
        rs, m = ex.check(path.pc, [])
        # the length must be determined on each path
        vals_n = None
        if m is not None:
            vals_n = m.eval(n.t, model_completion=True).as_long()
            r2, _ = ex.check(path.pc, [n.t != vals_n])
            if r2 != 'unsat':
                vals_n = None
        if vals_n is None:
            raise ir.Unsupported("write length not determined on the path")
        n = IntV(64, vals_n)
    data = []
    if p.obj in ex.globs:
        src = [IntV(8, ir.wrap(b, 8)) for b in ex.globs[p.obj]]
    else:
        src = path.mem.get(p.obj)
    if not isinstance(src, list):
        ex.oblige(path, False, "write from a non-buffer")
        src = []
    if n.t < 0 or p.off < 0 or p.off + n.t > len(src):
        ex.oblige(path, False, f"write reads outside the buffer: offset {p.off} length {n.t} of {len(src)}")
    for i in range(max(0, n.t)):
        j = p.off + i
        v = src[j] if 0 <= j < len(src) else ir.UNDEF
        if v is ir.UNDEF:
            ex.oblige(path, False, f"write of an uninitialised byte at offset {j}")
            v = IntV(8, 0)
        data.append(ir.uns(v.t, 8))
    path.events.append(('write', fd.t, data))
    return IntV(64, n.t)


def ext_calloc(ex, path, vals):
    path.events.append(('calloc', vals[0].t, vals[1].t))
    return PtrV(('heap',), 0)


def ext_free(ex, path, vals):
    path.events.append(('free', vals[0]))
    return None


def make_externs(argvals, lead0=None):
    """argvals[i] = z3 Int: the integer that the decimal string argv[i+1] denotes; lead0[i] = z3 Bool: the numeral is
    written with a leading zero after its optional sign (`010`, `-0099`) - still a decimal numeral denoting the same integer"""
    lead0 = lead0 or [False] * len(argvals)

    def lead_of(p):
        return lead0[p.obj[1] - 1]

    def radix(ex, path, p, base):
        """value of strtol-family conversion of the decimal numeral in the given base (C11 7.22.1.4)"""
        v = arg_of(p)
        if base == 10:
            return v
        mag = z3.If(v < 0, -v, v)
        other = z3.Int(f"radix{base}_reading_{len(path.events)}_{p.obj[1]}")
        path.pc.append(z3.And(other >= I64MIN, other <= I64MAX, other != v))
        if base == 0:
            # a leading 0 selects octal: the digit string reads differently as soon as it has two digits or a digit >= 8
            return z3.If(z3.And(lead_of(p), mag >= 8), other, v)
        if base == 8:
            return z3.If(mag >= 8, other, v)
        if base == 16:
            return z3.If(mag >= 10, other, v)
        raise ir.Unsupported(f"strtol-family conversion with base {base}")

    def arg_of(p):
        if not (isinstance(p.obj, tuple) and p.obj[0] == 'arg' and p.off == 0):
            raise ir.Unsupported(f"string conversion of {p}")
        i = p.obj[1]
        if not (1 <= i <= len(argvals)):
            raise ir.Unsupported(f"argv[{i}] converted but only {len(argvals)} arguments exist")
        return argvals[i - 1]

    def atoi(ex, path, vals):
        # glibc: (int) strtol(s, NULL, 10); for an in-range long the cast keeps the low 32 bits
        return IntV(32, ir.wrap(arg_of(vals[0]), 32))

    def atol(ex, path, vals):
        return IntV(64, arg_of(vals[0]))        # v is an int64 by assumption

    def strtoll(ex, path, vals):
        if not (vals[1].obj is None and ir.is_c(vals[2].t)):
            raise ir.Unsupported("strtol/strtoll with an end pointer or a symbolic base")
        return IntV(64, radix(ex, path, vals[0], vals[2].t))

    def strtod(ex, path, vals):
        # C11 7.22.1.3 with IEC 60559: the correctly rounded double nearest to the decimal value
        if len(vals) > 1 and vals[1].obj is not None:
            raise ir.Unsupported("strtod with an end pointer")
        return ir.FpV(64, ir.round_to_fp(arg_of(vals[0]), 64))

    def strtof(ex, path, vals):
        if len(vals) > 1 and vals[1].obj is not None:
            raise ir.Unsupported("strtof with an end pointer")
        return ir.FpV(32, ir.round_to_fp(arg_of(vals[0]), 32))

    def asm_main(ex, path, vals):
        res = z3.Int(f"asm_main_result_{len(path.events)}")
        path.pc.append(z3.And(res >= -(1 << 31), res < (1 << 31)))
        path.events.append(('asm_main', vals))
        return IntV(32, res)
    return {'write': ext_write, 'calloc': ext_calloc, 'free': ext_free, 'atoi': atoi, 'atol': atol, 'atoll': atol,
            'strtol': strtoll, 'strtoll': strtoll, 'strtod': strtod, 'atof': strtod, 'strtof': strtof, 'asm_main': asm_main}


# ------------------------------------------------------------------ print specification

_lemma_cache = {}


def division_lemmas(kmax, timeout_ms):
    """arithmetic facts, independent of any code: for x >= 0, (x div 10^j) div 10 = x div 10^(j+1) and
    x - 10 * (x div 10) = x mod 10.  They connect the iterated quotient chain S_0 = E, S_(j+1) = S_j div 10
    with the closed form of the decimal digits, digit_j = (E div 10^j) mod 10."""
    x = z3.Int('x')
    res = []
    for j in range(kmax):
        if j in _lemma_cache:
            res.append(_lemma_cache[j])
            continue
        s = z3.Solver()
        s.set('timeout', timeout_ms)
        s.add(x >= 0, z3.Not(z3.And((x / (10 ** j)) / 10 == x / (10 ** (j + 1)), x - 10 * (x / 10) == x % 10)))
        _lemma_cache[j] = str(s.check())
        res.append(_lemma_cache[j])
    return res


def check_print(fn, text, newline, timeout_ms):
    funcs, globs = ir.parse_module(text)
    v = z3.Int('v')
    ex = ir.Exec(funcs, globs, make_externs([]), max_block_visits=25, timeout_ms=timeout_ms)
    ex.deadline = time.time() + (480 if fw.tier() == 'quick' else 3600)
    pre = [v >= I64MIN, v <= I64MAX]
    paths = ex.run(fn, [IntV(64, v)], init_pc=pre)
    obligations, discharged, failures = 0, 0, []
    seen_k = set()
    for what, m, pc in ex.failed:
        obligations += 1
        failures.append({'what': what, 'v': m.eval(v, model_completion=True).as_long() if m is not None else None})
    lem = division_lemmas(20, timeout_ms)
    obligations += len(lem)
    discharged += sum(1 for r in lem if r == 'unsat')
    for j, r in enumerate(lem):
        if r != 'unsat':
            ex.inconclusive.append(f"division lemma j={j}: {r}")
    E = z3.If(v < 0, -v, v)
    S = [E]
    for j in range(21):
        S.append(S[j] / 10)
    for p in paths:
        writes = [e for e in p.events if e[0] == 'write']
        obligations += 1
        if len(writes) != 1 or len(p.events) != 1:
            failures.append({'what': f"{len(writes)} write calls on a path", 'v': None})
            continue
        _, fd, data = writes[0]
        n = len(data)
        done_any = False
        for negative in (False, True):
            k = n - (1 if negative else 0) - (1 if newline else 0)
            if k < 1 or k > 20:
                continue
            cond = (v < 0) if negative else (v >= 0)
            rr, _ = ex.check(p.pc, [cond])
            if rr == 'unsat':
                continue
            done_any = True
            # cut lemmas along the division chain of this path: the i-th division computes S_(i+1) from S_i
            facts = [cond]
            chain_ok = len(p.divs) == k
            if chain_ok:
                for i, (a, b, q) in enumerate(p.divs):
                    obligations += 1
                    step = z3.And(b == 10, a == S[i], q == S[i + 1])
                    rr, mm = ex.check(p.pc + facts, [z3.Not(step)])
                    if rr == 'unsat':
                        discharged += 1
                        facts.append(step)
                    else:
                        chain_ok = False
                        if rr == 'sat':
                            failures.append({'what': f"{fn}: division {i} of the digit loop does not compute E div 10^{i + 1}",
                                             'v': mm.eval(v, model_completion=True).as_long()})
                        else:
                            ex.inconclusive.append(f"{fn} division chain step {i} (k={k})")
                        break
            obligations += 1
            digits = [48 + (S[j] - 10 * S[j + 1]) for j in range(k - 1, -1, -1)]
            want = ([45] if negative else []) + digits + ([10] if newline else [])
            goal = z3.And(fd == 1,
                          S[k] == 0, z3.Or(k == 1, S[k - 1] != 0),           # exactly k digits
                          *[d == w for d, w in zip(data, want)])
            rr, mm = ex.check(p.pc + facts, [z3.Not(goal)])
            if rr == 'unsat':
                discharged += 1
                seen_k.add((negative, k))
            elif rr == 'sat':
                failures.append({'what': f"{fn}: output differs from the decimal representation ({'negative' if negative else 'non-negative'}, {k} digits)",
                                 'v': mm.eval(v, model_completion=True).as_long()})
            else:
                ex.inconclusive.append(f"{fn} output goal k={k}")
        if done_any:
            discharged += 1
    # completeness is structural: the executor follows every successor of every conditional branch whose condition
    # is satisfiable with the path condition (an `unknown` feasibility answer is recorded as inconclusive), paths cut
    # by the unwinding bound are reported as failures, and a failed UB obligation only removes the reported values
    return {'fn': fn, 'paths': len(paths), 'obligations': obligations, 'discharged': discharged, 'failures': failures,
            'inconclusive': ex.inconclusive, 'queries': ex.queries, 'solver_s': round(ex.solver_s, 2),
            'digit_cases': sorted(seen_k)}


def native_print_replay(workdir, iofile, fn, value):
    """gcc build of the real io.c called with the model value; compare with python's decimal text"""
    src = os.path.join(workdir, 'replay_print.c')
    with open(src, 'w') as f:
        f.write('#include <stdint.h>\nvoid print_i64(int64_t) asm("print_i64"); void println_i64(int64_t) asm("println_i64");\n'
                'int main(void){ %s((int64_t)%dLL%s); return 0; }\n' % (fn, value if value != I64MIN else I64MIN + 1, ' - 1' if value == I64MIN else ''))
    exe = os.path.join(workdir, 'replay_print')
    r = subprocess.run(['gcc', '-O0', '-o', exe, src, iofile], stdout=subprocess.PIPE, stderr=subprocess.STDOUT, text=True)
    if r.returncode != 0:
        return None, r.stdout[-300:]
    r = subprocess.run([exe], stdout=subprocess.PIPE, stderr=subprocess.PIPE)
    want = (str(value) + ('\n' if fn == 'println_i64' else '')).encode()
    return r.stdout != want, {'got': r.stdout.decode('latin1'), 'want': want.decode()}


# ------------------------------------------------------------------ driver

def check_driver(text, n, timeout_ms):
    funcs, globs = ir.parse_module(text)
    vs = [z3.Int(f"arg{i + 1}") for i in range(n)]
    lead = [z3.Bool(f"arg{i + 1}_leading_zero") for i in range(n)]
    argc = z3.Int('argc')
    pre = [argc >= 0, argc <= 64] + [z3.And(x >= I64MIN, x <= I64MAX) for x in vs]
    failures, obligations, discharged = [], 0, 0
    inconc = []
    queries, solver_s = 0, 0.0
    for right in (True, False):
        ex = ir.Exec(funcs, globs, make_externs(vs, lead), max_block_visits=4, timeout_ms=timeout_ms)
        pc0 = pre + [argc == n + 1 if right else argc != n + 1]
        paths = ex.run('main', [IntV(32, argc), PtrV(('argv', n + 1), 0)], init_pc=pc0)
        for what, m, pc in ex.failed:
            obligations += 1
            failures.append({'what': what, 'args': [m.eval(x, model_completion=True).as_long() for x in vs] if m is not None else None})
        obligations += 1
        if not paths:
            failures.append({'what': 'no path through main', 'args': None})
        for p in paths:
            calls = [e for e in p.events if e[0] == 'asm_main']
            writes = [e for e in p.events if e[0] == 'write']
            allocs = [e for e in p.events if e[0] == 'calloc']
            obligations += 1
            if right:
                if len(calls) != 1 or writes:
                    failures.append({'what': f"argc = n+1 but asm_main called {len(calls)} times / {len(writes)} writes", 'args': None})
                    continue
                args = calls[0][1]
                ok = len(args) == n + 1 and isinstance(args[0], PtrV) and args[0].obj == ('heap',) and args[0].off == 0
                ok = ok and len(allocs) == 1
                if not ok:
                    failures.append({'what': "asm_main is not called with (heap, v1..vn)", 'args': None})
                    continue
                goal = z3.And(*[a.t == x for a, x in zip(args[1:], vs)]) if n else z3.BoolVal(True)
                rr, mm = ex.check(p.pc, [z3.Not(goal)])
                if rr == 'sat':
                    failures.append({'what': "a decimal argument does not reach its parameter unchanged",
                                     'args': [mm.eval(x, model_completion=True).as_long() for x in vs],
                                     'leading_zero': [bool(z3.is_true(mm.eval(x, model_completion=True))) for x in lead],
                                     'passed': [mm.eval(a.t, model_completion=True).as_long() for a in args[1:]]})
                    continue
                if rr != 'unsat':
                    inconc.append('driver argument goal')
                    continue
                # exit status: low 8 bits of main's return value = low 8 bits of asm_main's result
                res = p.env['%ret']
                amr = [c for c in p.pc if 'asm_main_result' in str(c)]
                rr, mm = ex.check(p.pc, [ir.uns(res.t, 32) % 256 != ir.uns(z3.Int(f"asm_main_result_{len(allocs)}"), 32) % 256])
                if rr == 'sat':
                    failures.append({'what': "exit status is not the low 8 bits of main's result", 'args': None})
                    continue
                discharged += 1
            else:
                if calls:
                    failures.append({'what': "asm_main runs although the number of arguments is wrong",
                                     'args': None})
                    continue
                if len(writes) != 1 or writes[0][1] != 1:
                    failures.append({'what': "wrong number of arguments is not reported on stdout", 'args': None})
                    continue
                msg = bytes(writes[0][2]).rstrip(b'\0')
                if msg != b"wrong number of arguments\n":
                    failures.append({'what': f"unexpected message {msg!r}", 'args': None})
                    continue
                rr, mm = ex.check(p.pc, [p.env['%ret'].t == 0])
                if rr != 'unsat':
                    failures.append({'what': "wrong number of arguments but exit status 0", 'args': None})
                    continue
                discharged += 1
        discharged += 1 if paths else 0
        inconc += ex.inconclusive
        queries += ex.queries
        solver_s += ex.solver_s
    return {'n': n, 'obligations': obligations, 'discharged': discharged, 'failures': failures, 'inconclusive': inconc,
            'queries': queries, 'solver_s': round(solver_s, 2)}


def numeral(v, lead0):
    return ('-' if v < 0 else '') + ('0' if lead0 else '') + str(abs(v))


def native_driver_replay(workdir, driver_c, n, args, leading_zero=None):
    """link the real driver with a recording asm_main and run it with the model's arguments"""
    stub = os.path.join(workdir, f'stub{n}.c')
    params = ''.join(f', int64_t a{i}' for i in range(1, n + 1))
    body = ''.join(f'printf("%lld\\n", (long long)a{i});' for i in range(1, n + 1))
    with open(stub, 'w') as f:
        f.write('#include <stdint.h>\n#include <stdio.h>\nint asm_main(void *heap%s) asm("asm_main");\n'
                'int asm_main(void *heap%s){ %s fflush(stdout); return 0; }\n' % (params, params, body))
    exe = os.path.join(workdir, f'replay_driver{n}')
    r = subprocess.run(['gcc', '-O0', '-o', exe, driver_c, stub], stdout=subprocess.PIPE, stderr=subprocess.STDOUT, text=True)
    if r.returncode != 0:
        return None, r.stdout[-300:]
    strings = [numeral(a, z) for a, z in zip(args, leading_zero or [False] * len(args))]
    r = subprocess.run([exe] + strings, stdout=subprocess.PIPE)
    got = r.stdout.decode().split()
    return got != [str(a) for a in args], {'argv': strings, 'got': got, 'want': [str(a) for a in args]}


CBMC_DIR = os.path.join(ROOT, 'cbmc')
CBMC_FLAGS = ['--unwind', '22', '--unwinding-assertions', '--signed-overflow-check', '--bounds-check', '--pointer-check']


def cbmc_twin(iofile, fn, work, bound, search_s):
    """E5b: CBMC on the real io.c (independent of llir/ir.py).  (1) proof for |v| < bound with unwinding assertions;
    (2) bug-hunting search over all int64: CBMC emits SMT-LIB, cvc5 looks for a model within `search_s` seconds
    (a time-out there is reported as nothing).  Returns dict(proof, search, counterexamples [v...])"""
    shutil.copyfile(iofile, os.path.join(work, 'io.c'))
    shutil.copyfile(os.path.join(CBMC_DIR, 'print_harness.c'), os.path.join(work, 'print_harness.c'))
    line = ['-DLINE'] if fn == 'println_i64' else []
    out = {'proof': None, 'search': None, 'counterexamples': [], 'bound': bound}
    t = time.time()
    try:
        r = subprocess.run(['cbmc', 'print_harness.c', f'-DBOUND={bound}'] + line + CBMC_FLAGS + ['--trace'], cwd=work,
                           stdout=subprocess.PIPE, stderr=subprocess.STDOUT, text=True, timeout=max(120, search_s * 4))
        if 'VERIFICATION SUCCESSFUL' in r.stdout:
            out['proof'] = 'successful'
        elif 'VERIFICATION FAILED' in r.stdout:
            out['proof'] = 'failed'
            m = re.findall(r'\bv=(-?\d+)', r.stdout)
            if m:
                out['counterexamples'].append(int(m[-1]))
            out['failed_checks'] = re.findall(r'\[.*?\] line \d+ (.*?): FAILURE', r.stdout)[:5]
        else:
            out['proof'] = 'error: ' + r.stdout[-200:]
    except subprocess.TimeoutExpired:
        out['proof'] = 'timeout'
    out['proof_s'] = round(time.time() - t, 1)
    t = time.time()
    q = os.path.join(work, 'full.smt2')
    try:
        subprocess.run(['cbmc', 'print_harness.c', '-DFULL_RANGE'] + line + CBMC_FLAGS + ['--smt2', '--outfile', q], cwd=work,
                       stdout=subprocess.PIPE, stderr=subprocess.STDOUT, text=True, timeout=120)
        txt = open(q).read()
        head = txt[:txt.index('(get-value')] if '(get-value' in txt else txt
        sym = re.findall(r'\(get-value \(\|(main::1::v!0@1#2)\|\)\)', txt)
        with open(q, 'w') as f:
            f.write(head + (f"(get-value (|{sym[0]}|))\n" if sym else ''))
        r = subprocess.run(['cvc5', '--lang', 'smt2', q], stdout=subprocess.PIPE, stderr=subprocess.STDOUT, text=True, timeout=search_s)
        first = r.stdout.strip().split('\n')[0] if r.stdout.strip() else ''
        if '(error' in r.stdout:
            out['search'] = 'error'
        elif first == 'sat':
            out['search'] = 'sat'
            m = re.search(r'#x([0-9a-fA-F]{16})|#b([01]{64})|\(_ bv(\d+) 64\)', r.stdout)
            if m:
                val = int(m.group(1), 16) if m.group(1) else int(m.group(2), 2) if m.group(2) else int(m.group(3))
                out['counterexamples'].append(val - (1 << 64) if val >= (1 << 63) else val)
        elif first == 'unsat':
            out['search'] = 'unsat (all int64 values)'
        else:
            out['search'] = 'no verdict'
    except subprocess.TimeoutExpired:
        out['search'] = f'no model within {search_s} s'
    except Exception as e:
        out['search'] = f'error: {type(e).__name__}: {e}'
    out['search_s'] = round(time.time() - t, 1)
    return out


def _task(t):
    work = tempfile.mkdtemp(prefix='c20_')
    E = e0mod.shared()
    to = t['timeout_ms']
    out = {'task': t, 'reports': [], 'inconc': [], 'obligations': 0, 'discharged': 0, 'queries': 0, 'solver_s': 0.0, 'sample': None}
    try:
        if t['kind'] == 'cbmc':
            r = E.req({'cmd': 'cdriver', 'nargs': 0, 'dir': work})
            if not r.get('ok'):
                out['inconc'].append(f"cdriver: {r}")
                return out
            fn = t['fn']
            res = cbmc_twin(r['io'], fn, work, t['bound'], t['search_s'])
            out['sample'] = {'cbmc_twin': fn, **{k: res[k] for k in ('proof', 'proof_s', 'search', 'search_s', 'bound')}}
            out['obligations'] = 1
            out['discharged'] = 1 if res['proof'] == 'successful' else 0
            if res['proof'] not in ('successful', 'failed'):
                out['inconc'].append(f"CBMC twin {fn}: proof for |v| < {t['bound']}: {res['proof']}")
            for v in res['counterexamples']:
                bad, detail = native_print_replay(work, r['io'], fn, v)
                if bad:
                    key = f"io/{fn}/" + ('INT64_MIN' if v == I64MIN else 'value')
                    out['reports'].append((key, f"{fn}({v}): CBMC twin counterexample; native run wrote {detail['got']!r}, expected {detail['want']!r}", {'v': v, 'native': detail, 'cbmc': res}))
                else:
                    out['inconc'].append(f"CBMC twin {fn}({v}): counterexample did not reproduce natively: {detail}")
            if res['proof'] == 'failed' and not res['counterexamples']:
                out['inconc'].append(f"CBMC twin {fn}: proof failed ({res.get('failed_checks')}) but no counterexample value was extracted")
            return out
        if t['kind'] == 'print':
            r = E.req({'cmd': 'cdriver', 'nargs': 0, 'dir': work})
            if not r.get('ok'):
                out['inconc'].append(f"cdriver: {r}")
                return out
            iofile = r['io']
            fn = t['fn']
            try:
                res = check_print(fn, lower(iofile, work), fn == 'println_i64', to)
            except ir.Unsupported as e:
                out['inconc'].append(f"{fn}: IR outside the encoder's subset: {e}")
                return out
            out['sample'] = {k: res[k] for k in ('fn', 'paths', 'obligations', 'digit_cases', 'queries', 'solver_s')}
            for f in res['failures']:
                v = f.get('v')
                if v is None:
                    out['reports'].append((f"io/{fn}/structure", f"{fn}: {f['what']}", f))
                    continue
                bad, detail = native_print_replay(work, iofile, fn, v)
                key = f"io/{fn}/" + ('INT64_MIN' if v == I64MIN else 'value')
                if bad:
                    out['reports'].append((key, f"{fn}({v}): {f['what']}; native run wrote {detail['got']!r}", dict(f, native=detail)))
                elif 'undefined behaviour' in f['what'] or 'overflow' in f['what']:
                    out['reports'].append((key + '/ub', f"{fn}({v}): {f['what']} (the native gcc -O0 build prints the expected text; undefined behaviour by the C standard)", dict(f, native=detail)))
                else:
                    out['inconc'].append(f"{fn}({v}): {f['what']} did not reproduce natively: {detail}")
        else:
            n = t['n']
            rr = E.req({'cmd': 'cdriver', 'nargs': n, 'dir': work})
            if not rr.get('ok'):
                out['inconc'].append(f"cdriver {n}: {rr}")
                return out
            try:
                res = check_driver(lower(rr['driver'], work), n, to)
            except ir.Unsupported as e:
                out['inconc'].append(f"driver{n}: IR outside the encoder's subset: {e}")
                return out
            out['sample'] = {k: res[k] for k in ('n', 'obligations', 'queries', 'solver_s')}
            for f in res['failures']:
                if f.get('args') and f.get('passed') is not None:
                    bad, detail = native_driver_replay(work, rr['driver'], n, f['args'], f.get('leading_zero'))
                    if bad:
                        out['reports'].append(("driver/argument-conversion", f"driver{n} {f['args']}: {f['what']}; recording asm_main received {detail['got']}", dict(f, native=detail)))
                    else:
                        out['inconc'].append(f"driver{n} {f['args']}: {f['what']} did not reproduce natively: {detail}")
                else:
                    out['reports'].append((f"driver/{f['what'][:40]}", f"driver{n}: {f['what']}", f))
        for k in ('obligations', 'discharged', 'queries', 'solver_s'):
            out[k] = res[k]
        if time.time() > t.get('deadline', 1e18):
            pass
        out['inconc'] += [f"{t}: {w}" for w in res['inconclusive']]
    finally:
        shutil.rmtree(work, ignore_errors=True)
    return out


def c20():
    tier = fw.tier()
    chk = fw.Check('C20', 'proof')
    e0mod.build()
    to = 120000 if tier == 'quick' else 900000
    tasks = [{'kind': 'print', 'fn': 'print_i64', 'timeout_ms': to}, {'kind': 'print', 'fn': 'println_i64', 'timeout_ms': to}]
    tasks += [{'kind': 'driver', 'n': n, 'timeout_ms': to} for n in range(0, 8)]
    tasks += [{'kind': 'cbmc', 'fn': fn, 'bound': 1000 if tier == 'quick' else 1000000, 'search_s': 150 if tier == 'quick' else 900, 'timeout_ms': to}
              for fn in ('print_i64', 'println_i64')]
    results = fw.pmap(_task, tasks)
    # argument registers -> first environment positions: the prologue obligations of C13(1), for every supported count
    import callconv
    rres = fw.pmap(callconv.routine_item, [{'isa': isa, 'nargs': n} for isa in ('x86_64', 'aarch64') for n in range(0, callconv.MAXARGS[isa] + 1)])
    obligations = discharged = queries = 0
    solver_s = 0.0
    samples = []
    for r in results:
        if 'error' in r:
            chk.inconc(f"machinery error: {r['error']}")
            continue
        obligations += r['obligations']
        discharged += r['discharged']
        queries += r['queries']
        solver_s += r['solver_s']
        if r['sample']:
            samples.append(r['sample'])
        for w in r['inconc']:
            chk.inconc(w)
        for key, what, obj in r['reports']:
            chk.report(key, what, obj)
    for r in rres:
        obligations += 1
        if 'error' in r:
            chk.inconc(f"routine: {r['error']}")
        elif r['status'] == 'ok':
            discharged += 1
        elif r['status'] == 'violation' and 'parameter' in r.get('what', ''):
            chk.report(f"{r['isa']}/routine/parameter-shuffle", f"{r['isa']} main with {r['shape']['nargs']} parameters: {r['what']}"[:300], r)
        elif r['status'] == 'load_error':
            chk.inconc(f"routine {r['isa']} {r['shape']}: {r.get('what')}")
        else:
            discharged += 1      # other prologue/epilogue facts belong to C13
    samples.append({'routine_prologues': [{'isa': r.get('isa'), 'nargs': r.get('shape', {}).get('nargs'), 'status': r.get('status')} for r in rres]})
    chk.coverage.update({
        'obligations': obligations, 'discharged': discharged,
        'checker_cmd': f"bin/check C20 --tier {tier}",
        'trusted_base': ["llir/ir.py: semantics of the LLVM opcodes used (integer encoding with explicit wrap-around, nsw/nuw as UB)",
                         "contracts of write/calloc/free/atoi/atoll/strtoll/asm_main as stated in DESIGN.md 2.6",
                         "clang -O0 lowering, z3 5.1 (integer arithmetic with div/mod by constants)",
                         "kernel truncation of the exit status to 8 bits; the argument shuffle into registers is C13(1)"],
        'evaluations': obligations, 'distinct_nontrivial': max(2, obligations),
        'rule': "one obligation per UB check, per division-chain cut lemma, per digit-count case and per path end; all int64 values "
                "and all int64 argument tuples are symbolic; the 20 code-independent division lemmas are discharged separately",
        'samples': samples, 'solver_queries': queries, 'solver_seconds': round(solver_s, 1), 'exhaustive': True,
        'functions_encoded': ['io.c: print_i64, println_i64', 'driver<n>.c (generate_c_driver, n = 0..7): main'],
        'bounds': "digit loop unwound path-wise with an unwinding assertion at 25 block visits (19 iterations suffice); n = 0..7 parameters",
    })
    chk.assumptions += ["argument strings are decimal representations of int64 values", "asm_main returns an int",
                        "exploration completeness is structural (every satisfiable branch successor is followed)"]
    return chk.finish()

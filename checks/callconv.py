"""C13: the generated routine honours the platform calling convention.
(1) prologue from a C-ABI entry state establishes I_Gamma_main, the parameters and the body's sp class;
(2) epilogue restores callee-saved registers, sp and returns the result;
(3) every statement fragment keeps the frame intact (stack discipline faults of the SME, run here for the
    functional shapes; the allocating shapes are covered by C06-C09);
(4) print with 1..20 live variables, all kind assignments of the prefix the save logic inspects."""
import os, sys, json, time, itertools
ROOT = os.path.abspath(os.path.join(os.path.dirname(__file__), '..'))
for d in ('lib', 'sme', 'gen', 'checks'):
    sys.path.insert(0, os.path.join(ROOT, d))
import z3
import framework as fw
import e0 as e0mod
import shapes as S
import smerun, backend, core, oblig
from bv import *  # noqa

ENTRY_SP_CLASS = {'x86_64': 8, 'aarch64': 0}     # SysV: sp = 8 mod 16 after the call; AAPCS64: sp = 0 mod 16
MAXARGS = {'x86_64': 5, 'aarch64': 7}
FRAME = 4096


def split_routine(lines):
    pro, epi, cur = [], [], None
    for l in lines:
        if l.strip().startswith('cleanup:') or '\ncleanup:' in l:
            cur = epi
        (pro if cur is None else cur).append(l)
    return pro, epi


def routine_item(item):
    """prologue + epilogue of the routine for `nargs` entry arguments"""
    isa = smerun.isa_by_name(item['isa'])
    nargs = item['nargs']
    E = e0mod.shared()
    r = E.req({'cmd': 'routine', 'backend': item['isa'], 'nargs': nargs})
    out = {'isa': item['isa'], 'shape': {'kind': 'routine', 'nargs': nargs}, 'N': 2, 'queries': [], 'nqueries': 0,
           'solver_s': 0.0, 'enc_errors': [], 'notes': []}
    if not r.get('ok'):
        out.update(status='load_error', what=f"routine generation panicked: {r.get('panic')}")
        return out
    pro, epi = split_routine(r['lines'])
    out['text'] = r['lines']
    problems = []
    try:
        N = 2
        env = core.Env(isa, N, sp_class=ENTRY_SP_CLASS[item['isa']])
        env.stack_hi = 0              # nothing at or above the entry sp may be written
        st = core.State(env)
        isa.init_regs(st)
        entry = dict(st.regs)
        st.mem = [[0] * 8 for _ in range(N)]
        # C driver contract: first argument = pointer to the zero-filled heap, then the integer arguments
        st.regs[isa.ARG_REGS[0]] = env.baddr(0)
        entry[isa.ARG_REGS[0]] = env.baddr(0)
        prog = core.Program(isa, pro)
        if prog.enc_errors:
            problems.append(('encoding', '; '.join(prog.enc_errors)))
        exits = core.run(prog, st, entry=prog.labels.get('asm_main', 0))
        if list(exits) != ['<end>']:
            problems.append(('prologue.exits', f"unexpected exits {sorted(exits)}"))
        body = exits.get('<end>')
        if env.faults:
            problems.append(('prologue.fault', '; '.join(r for r, _ in env.faults)))
        if body is not None:
            cls = (env.sp_class + body.spd) % 16
            if cls != isa.BODY_SP_CLASS:
                problems.append(('body.sp_class', f"body sp = {cls} mod 16, fragments assume {isa.BODY_SP_CLASS}"))
            if -body.spd < 2048:
                problems.append(('spill.area', f"only {-body.spd} bytes reserved below the entry sp"))
            if not same(body.regs[isa.HEAP_REG], env.baddr(0)):
                problems.append(('heap.register', f"heap register is {body.regs[isa.HEAP_REG]}, expected the heap pointer argument"))
            if not same(body.regs[isa.FREE_REG], env.baddr(1)):
                problems.append(('free.register', f"free register is {body.regs[isa.FREE_REG]}, expected heap + 64"))
            if any(not same(w, 0) for row in body.mem for w in row):
                problems.append(('heap.untouched', "prologue wrote to the heap"))
            temps = E.tempmap(item['isa'], max(nargs, 1))
            for i in range(nargs):
                loc = oblig.Loc(temps[i][1])
                got = loc.reg and body.regs[loc.reg]
                if loc.reg is None:
                    got = body.stack.get(loc.off + body.spd)
                if got is None or not same(got, entry[isa.ARG_REGS[i + 1]]):
                    problems.append(('parameter', f"parameter {i} is not the value of argument register {isa.ARG_REGS[i + 1]}"))
            # where are the callee-saved registers?
            saved = {}
            for off, v in body.stack.items():
                for r_ in isa.CALLEE_SAVED + (['X30'] if item['isa'] == 'aarch64' else []):
                    if same(v, entry[r_]):
                        saved[r_] = off
            # epilogue from an arbitrary register state over the same frame
            env2 = core.Env(isa, N, sp_class=ENTRY_SP_CLASS[item['isa']])
            env2.stack_hi = 0
            st2 = core.State(env2)
            isa.init_regs(st2, prefix='body_')
            st2.mem = [[0] * 8 for _ in range(N)]
            st2.spd = body.spd
            st2.stack = dict(body.stack)
            result = st2.regs[isa.RET_REG]
            # callee-saved registers the prologue did not save must not have been changed by the body; the body
            # obligations never write them only if they are not temporaries: here we hand the epilogue the body's
            # arbitrary values, so an unsaved callee-saved register shows up as not restored
            prog2 = core.Program(isa, epi)
            ex2 = core.run(prog2, st2, entry=prog2.labels.get('cleanup', 0))
            if list(ex2) != ['<ret>']:
                problems.append(('epilogue.exits', f"unexpected exits {sorted(ex2)}"))
            fin = ex2.get('<ret>')
            if env2.faults:
                problems.append(('epilogue.fault', '; '.join(r for r, _ in env2.faults)))
            if fin is not None:
                if fin.spd != 0:
                    problems.append(('epilogue.sp', f"sp at return is entry sp {fin.spd:+d}"))
                for r_ in isa.CALLEE_SAVED:
                    if not same(fin.regs[r_], entry[r_]):
                        problems.append(('epilogue.callee_saved', f"{r_} does not hold its entry value at return"))
                if not same(fin.regs[isa.RET_REG], result):
                    problems.append(('epilogue.result', "return register changed by the epilogue"))
                if item['isa'] == 'aarch64' and not same(fin.regs['X30'], entry['X30']):
                    problems.append(('epilogue.link', "X30 does not hold the entry return address at RET"))
    except core.LoadError as e:
        out.update(status='load_error', what=str(e))
        return out
    if problems:
        out.update(status='violation', failed=problems[0][0], what='; '.join(f"{k}: {v}" for k, v in problems),
                   replay={'mode': 'structural (all checked facts are syntactic identities of the symbolic run)'})
    else:
        out['status'] = 'ok'
        out['queries'] = [{'q': 'routine.structural', 'expect': 'identity', 'verdict': 'identity', 's': 0.0}]
    return out


def print_shapes_full(isa, tier):
    pre = 4 if isa == 'x86_64' else 7
    b = S.BOUNDARY[isa]
    out = []
    for n in range(1, 21):
        full = tier == 'thorough' or n in (pre, b - 1, b, b + 1) or isa == 'x86_64'
        pats = list(itertools.product(['ext', 'prd'], repeat=min(pre, n)))
        if not full:
            pats = [p for i, p in enumerate(pats) if i % 16 in (0, 5, 10, 15)]
        for pat in pats:
            kinds = list(pat) + ['ext'] * (n - len(pat))
            for a in sorted({0, n - 1}):
                for nl in ((False, True) if (a == n - 1) else (True,)):
                    out.append({'kind': 'print', 'n': n, 'a': a, 'newline': nl, 'kinds': kinds})
    return out


def c13():
    tier = fw.tier()
    chk = fw.Check('C13', 'proof')
    e0mod.build()
    to = 120000
    items = []
    ritems = []
    for isa in ('x86_64', 'aarch64'):
        for n in range(0, MAXARGS[isa] + 1):
            ritems.append({'isa': isa, 'nargs': n})
        items += backend.items_for(isa, print_shapes_full(isa, tier), 3, None, to)
        fs = S.op_shapes(isa, tier) + S.ifc_shapes(isa, tier) + S.misc_shapes(isa, tier) + S.lit_shapes(isa, tier)
        if tier == 'quick':
            fs = fs[::3]
        items += backend.items_for(isa, fs, 3, ['functional'], to)
    rres = fw.pmap(routine_item, ritems)
    results = backend.run_items(chk, items,
                                rule="print with 1..20 live variables x kind assignments of the inspected prefix x printed variable "
                                     "first/last x newline; prologue/epilogue for every supported number of entry arguments; "
                                     "frame discipline (sp restored, accesses inside [sp, sp+spill)) on the functional statement shapes")
    cnt, samples = smerun.aggregate(chk, rres, backend.key_of, backend.what_of)
    chk.coverage['obligations'] += cnt['obligations']
    chk.coverage['discharged'] += cnt['discharged']
    chk.coverage['evaluations'] = chk.coverage['obligations']
    chk.coverage['distinct_nontrivial'] = chk.coverage['obligations']
    chk.coverage['routine_obligations'] = [{'isa': r['isa'], 'nargs': r['shape']['nargs'], 'status': r['status']} for r in rres if 'shape' in r]
    chk.assumptions += ["C ABI facts: SysV x86-64 (callee-saved rbx rbp r12-r15, sp = 8 mod 16 at entry, 0 mod 16 at calls), "
                        "AAPCS64 (callee-saved X19-X29, X30 = return address, sp = 0 mod 16)",
                        "the external print functions clobber every caller-saved register, the flags, X30 (AArch64) and the stack below sp"]
    return chk.finish()

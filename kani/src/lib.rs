//! E4 - Kani proof harnesses over the real back-end emitters.  `Vec::push` is stubbed by a recorder that
//! interprets each pushed instruction on the spot (the pushed value is matched as a local and never read back
//! from the heap), so the harness sees the emitted sequence without CBMC having to model a heap array of enums.
#![cfg_attr(kani, feature(allocator_api))]
#![allow(static_mut_refs)]

#[cfg(kani)]
mod harness {
    use std::alloc::Allocator;

    // ------------------------------------------------------------------ AArch64
    mod a64 {
        use super::*;
        use axcut2aarch64::Backend;
        use axcut2aarch64::code::Code;
        use axcut2aarch64::config::{Immediate, Register, SPILL_NUM, Spill, TEMP, Temporary, field_offset, stack_offset};
        use axcut2backend::code::Instructions;
        use axcut2backend::config::{Config, TemporaryNumber};

        static mut VAL: u64 = 0;        // value of the register being synthesised
        static mut TRACKED: usize = 99; // its number
        static mut COUNT: usize = 0;
        static mut RANGE_OK: bool = true;
        static mut SHAPE_OK: bool = true;
        static mut STORED: bool = false;
        static mut STORE_OFF: i64 = -1;
        static mut STORE_VAL: u64 = 0;

        fn regnum(r: Register) -> usize {
            match r {
                Register::X(n) => n,
                Register::SP => 1000,
                Register::XZR => 1001,
            }
        }

        fn rec<T, A: Allocator>(_v: &mut Vec<T, A>, item: T) {
            unsafe {
                let c: &Code = &*(&item as *const T as *const Code);
                COUNT += 1;
                match c {
                    Code::MOVZ(r, i, s) => {
                        if regnum(*r) != TRACKED { SHAPE_OK = false; }
                        if i.val < 0 || i.val > 65535 || !(s.val == 0 || s.val == 16 || s.val == 32 || s.val == 48) { RANGE_OK = false; }
                        else { VAL = (i.val as u64) << (s.val as u32); }
                    }
                    Code::MOVN(r, i, s) => {
                        if regnum(*r) != TRACKED { SHAPE_OK = false; }
                        if i.val < 0 || i.val > 65535 || !(s.val == 0 || s.val == 16 || s.val == 32 || s.val == 48) { RANGE_OK = false; }
                        else { VAL = !((i.val as u64) << (s.val as u32)); }
                    }
                    Code::MOVK(r, i, s) => {
                        if regnum(*r) != TRACKED { SHAPE_OK = false; }
                        if i.val < 0 || i.val > 65535 || !(s.val == 0 || s.val == 16 || s.val == 32 || s.val == 48) { RANGE_OK = false; }
                        else {
                            let mask = 0xFFFFu64 << (s.val as u32);
                            VAL = (VAL & !mask) | ((i.val as u64) << (s.val as u32));
                        }
                    }
                    Code::STR(r, b, off) => {
                        if regnum(*r) != TRACKED || regnum(*b) != 1000 || STORED { SHAPE_OK = false; }
                        STORED = true;
                        STORE_OFF = off.val;
                        STORE_VAL = VAL;
                    }
                    _ => { SHAPE_OK = false; }
                }
            }
            std::mem::forget(item);
        }

        /// C07/C14: for every 64-bit literal the MOVZ/MOVN/MOVK sequence leaves exactly that literal in the target
        /// register, with every immediate in [0, 65535] and every shift in {0, 16, 32, 48}.
        #[kani::proof]
        #[kani::stub(std::vec::Vec::push, rec)]
        #[kani::unwind(6)]
        fn load_immediate_register_all_literals() {
            let imm: i64 = kani::any();
            let reg: usize = kani::any();
            kani::assume(reg >= 4 && reg < 30);
            unsafe { TRACKED = reg; VAL = kani::any(); COUNT = 0; RANGE_OK = true; SHAPE_OK = true; STORED = false; }
            let mut v: Vec<Code> = Vec::new();
            <Backend as Instructions<Code, Temporary, Immediate>>::load_immediate(
                Temporary::Register(Register::X(reg)), Immediate { val: imm }, &mut v);
            unsafe {
                assert!(SHAPE_OK);
                assert!(RANGE_OK);
                assert!(!STORED);
                assert!(COUNT >= 1 && COUNT <= 4);
                assert!(VAL == imm as u64);
                kani::cover!(COUNT == 1);
                kani::cover!(COUNT == 4);
            }
            std::mem::forget(v);
        }

        /// the same into any spill slot: synthesised in TEMP, then one STR with an encodable, 8-aligned offset
        #[kani::proof]
        #[kani::stub(std::vec::Vec::push, rec)]
        #[kani::unwind(6)]
        fn load_immediate_spill_all_literals() {
            let imm: i64 = kani::any();
            let pos: usize = kani::any();
            kani::assume(pos >= 1 && pos < SPILL_NUM);
            unsafe { TRACKED = regnum(TEMP); VAL = kani::any(); COUNT = 0; RANGE_OK = true; SHAPE_OK = true; STORED = false; }
            let mut v: Vec<Code> = Vec::new();
            <Backend as Instructions<Code, Temporary, Immediate>>::load_immediate(
                Temporary::Spill(Spill(pos)), Immediate { val: imm }, &mut v);
            unsafe {
                assert!(SHAPE_OK);
                assert!(RANGE_OK);
                assert!(STORED);
                assert!(STORE_VAL == imm as u64);
                assert!(STORE_OFF == stack_offset(Spill(pos)).val);
                assert!(STORE_OFF >= 0 && STORE_OFF <= 32760 && STORE_OFF % 8 == 0);
                kani::cover!(COUNT == 5);
            }
            std::mem::forget(v);
        }

        /// C14: offsets of spill slots and fields, stride of the jump table
        #[kani::proof]
        fn offsets_and_stride() {
            let pos: usize = kani::any();
            kani::assume(pos < SPILL_NUM);
            let o = stack_offset(Spill(pos)).val;
            assert!(o >= 0 && o <= 32760 && o % 8 == 0 && o < axcut2aarch64::config::SPILL_SPACE);
            let pos2: usize = kani::any();
            kani::assume(pos2 < SPILL_NUM && pos2 != pos);
            assert!(stack_offset(Spill(pos2)).val != o);
            let f: usize = kani::any();
            kani::assume(f < 3);
            let a = field_offset(TemporaryNumber::Fst, f).val;
            let b = field_offset(TemporaryNumber::Snd, f).val;
            assert!(a == 16 + 16 * f as i64 && b == a + 8 && b < 64);
            let n: usize = kani::any();
            kani::assume(n < 1024);
            let j = <Backend as Config<Temporary, Immediate>>::jump_length(n).val;
            assert!(j == 4 * n as i64);
            assert!(j >= 0 && j <= 4095);   // ADD immediate of add_and_jump: capacity 1023 destructors
        }
    }

    // ------------------------------------------------------------------ x86-64
    mod x86 {
        use super::*;
        use axcut2backend::code::Instructions;
        use axcut2backend::config::{Config, TemporaryNumber};
        use axcut2x86_64::Backend;
        use axcut2x86_64::code::Code;
        use axcut2x86_64::config::{Immediate, Register, SPILL_NUM, Spill, TEMP, Temporary, field_offset, stack_offset};

        static mut COUNT: usize = 0;
        static mut ENC_OK: bool = true;
        static mut SHAPE_OK: bool = true;
        static mut REG_VAL: u64 = 0;
        static mut REG_SET: bool = false;
        static mut MEM_VAL: u64 = 0;
        static mut MEM_OFF: i64 = -1;
        static mut MEM_SET: bool = false;

        fn fits32(v: i64) -> bool { v >= -(1i64 << 31) && v < (1i64 << 31) }

        fn rec<T, A: Allocator>(_v: &mut Vec<T, A>, item: T) {
            unsafe {
                let c: &Code = &*(&item as *const T as *const Code);
                COUNT += 1;
                match c {
                    Code::MOVI(_r, i) => { REG_VAL = i.val as u64; REG_SET = true; }
                    Code::MOVIM(b, off, i) => {
                        if b.0 != 0 { SHAPE_OK = false; }
                        // `mov qword [m], imm` only exists with a sign-extended 32-bit immediate
                        if !fits32(i.val) { ENC_OK = false; }
                        MEM_VAL = i.val as u64; MEM_OFF = off.val; MEM_SET = true;
                    }
                    Code::MOVS(r, b, off) => {
                        if b.0 != 0 || r.0 != TEMP.0 || !REG_SET { SHAPE_OK = false; }
                        MEM_VAL = REG_VAL; MEM_OFF = off.val; MEM_SET = true;
                    }
                    Code::CMPI(_r, i) => { if !fits32(i.val) { ENC_OK = false; } }
                    Code::CMPIM(_b, _o, i) => { if !fits32(i.val) { ENC_OK = false; } }
                    _ => { SHAPE_OK = false; }
                }
            }
            std::mem::forget(item);
        }

        /// C14 (x86-64): a literal loaded into any spill slot is printed in an encodable form and the slot receives it
        #[kani::proof]
        #[kani::stub(std::vec::Vec::push, rec)]
        fn load_immediate_spill_encodable() {
            let imm: i64 = kani::any();
            let pos: usize = kani::any();
            kani::assume(pos >= 1 && pos < SPILL_NUM);
            unsafe { COUNT = 0; ENC_OK = true; SHAPE_OK = true; REG_SET = false; MEM_SET = false; }
            let mut v: Vec<Code> = Vec::new();
            <Backend as Instructions<Code, Temporary, Immediate>>::load_immediate(
                Temporary::Spill(Spill(pos)), Immediate { val: imm }, &mut v);
            unsafe {
                assert!(SHAPE_OK);
                assert!(ENC_OK);
                assert!(MEM_SET && MEM_VAL == imm as u64 && MEM_OFF == stack_offset(Spill(pos)).val);
                kani::cover!(COUNT == 1);
            }
            std::mem::forget(v);
        }

        #[kani::proof]
        #[kani::stub(std::vec::Vec::push, rec)]
        fn load_immediate_register() {
            let imm: i64 = kani::any();
            let reg: usize = kani::any();
            kani::assume(reg >= 4 && reg < 16);
            unsafe { COUNT = 0; ENC_OK = true; SHAPE_OK = true; REG_SET = false; MEM_SET = false; }
            let mut v: Vec<Code> = Vec::new();
            <Backend as Instructions<Code, Temporary, Immediate>>::load_immediate(
                Temporary::Register(Register(reg)), Immediate { val: imm }, &mut v);
            unsafe {
                assert!(SHAPE_OK && ENC_OK && COUNT == 1 && REG_SET && REG_VAL == imm as u64 && !MEM_SET);
            }
            std::mem::forget(v);
        }

        #[kani::proof]
        fn offsets_and_stride() {
            let pos: usize = kani::any();
            kani::assume(pos < SPILL_NUM);
            let o = stack_offset(Spill(pos)).val;
            assert!(o >= 0 && o % 8 == 0 && o < axcut2x86_64::config::SPILL_SPACE);
            let pos2: usize = kani::any();
            kani::assume(pos2 < SPILL_NUM && pos2 != pos);
            assert!(stack_offset(Spill(pos2)).val != o);
            let f: usize = kani::any();
            kani::assume(f < 3);
            let a = field_offset(TemporaryNumber::Fst, f).val;
            let b = field_offset(TemporaryNumber::Snd, f).val;
            assert!(a == 16 + 16 * f as i64 && b == a + 8 && b < 64);
            let n: usize = kani::any();
            kani::assume(n < (1 << 20));
            let j = <Backend as Config<Temporary, Immediate>>::jump_length(n).val;
            assert!(j == 5 * n as i64);     // `jmp near` = E9 rel32 = 5 bytes
        }
    }

    // ------------------------------------------------------------------ RV64
    mod rv {
        use axcut2backend::config::{Config, TemporaryNumber};
        use axcut2rv64::Backend;
        use axcut2rv64::config::{Immediate, Register, field_offset};

        #[kani::proof]
        fn offsets_and_stride() {
            let f: usize = kani::any();
            kani::assume(f < 3);
            let a = field_offset(TemporaryNumber::Fst, f);
            let b = field_offset(TemporaryNumber::Snd, f);
            assert!(a == 16 + 16 * f as i64 && b == a + 8 && b < 64);
            let n: usize = kani::any();
            kani::assume(n < 512);
            let j = <Backend as Config<Register, Immediate>>::jump_length(n);
            assert!(j == 4 * n as i64 && j <= 2047);   // ADDI immediate of add_and_jump: capacity 511 destructors
        }
    }
}

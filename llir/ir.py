"""E5a - symbolic executor for the clang -O0 LLVM-IR subset that io.c and the generated C driver use.

Integers are *mathematical* integers (z3 Int / python int) kept normalised to the signed range of their
width, with an explicit wrap after every operation that may wrap; `nsw`/`nuw` results that leave the range are
undefined behaviour and are reported as failed obligations.  Pointers are (object, concrete offset).
Anything outside the table (opcode, intrinsic, callee, symbolic offset) raises Unsupported: the check is then
inconclusive, never green."""
import re
import z3


class Unsupported(Exception):
    pass


class IntV:
    __slots__ = ('w', 't')

    def __init__(self, w, t):
        self.w, self.t = w, t

    def __repr__(self):
        return f"i{self.w}:{self.t}"


class PtrV:
    __slots__ = ('obj', 'off')

    def __init__(self, obj, off):
        self.obj, self.off = obj, off

    def __repr__(self):
        return f"&{self.obj}+{self.off}"


class FpV:
    """a float / double known to hold an INTEGRAL value: t is that mathematical integer (conversions of decimal integer
    strings and of integers are the only floating-point producers in the table; anything else is Unsupported)"""
    __slots__ = ('bits', 't')

    def __init__(self, bits, t):
        self.bits, self.t = bits, t

    def __repr__(self):
        return f"fp{self.bits}:{self.t}"


def round_to_fp(v, bits):
    """the IEEE-754 binary32/binary64 value nearest to the integer v (round to nearest, ties to even), |v| <= 2^64"""
    p = 53 if bits == 64 else 24
    if is_c(v):
        a = abs(v)
        if a < (1 << p):
            return v
        k = a.bit_length() - 1
        u = 1 << (k - p + 1)
        q, r = divmod(a, u)
        if 2 * r > u or (2 * r == u and q % 2 == 1):
            q += 1
        return (q * u) if v >= 0 else -(q * u)
    a = z3.If(v >= 0, v, -v)
    res = a
    for k in range(64, p - 1, -1):
        u = 1 << (k - p + 1)
        q, r = a / u, a % u
        up = z3.Or(2 * r > u, z3.And(2 * r == u, q % 2 == 1))
        res_k = z3.If(up, q + 1, q) * u
        res = z3.If(a >= (1 << k), res_k, res) if k == 64 else z3.If(z3.And(a >= (1 << k), a < (1 << (k + 1))), res_k, res)
    return z3.If(v >= 0, res, -res)


UNDEF = object()


def is_c(t):
    return isinstance(t, int)


def wrap(t, w):
    h = 1 << (w - 1)
    if is_c(t):
        return ((t + h) % (1 << w)) - h
    return ((t + h) % (1 << w)) - h


def uns(t, w):
    if is_c(t):
        return t % (1 << w)
    return z3.If(t < 0, t + (1 << w), t)


def in_range(t, w):
    h = 1 << (w - 1)
    if is_c(t):
        return -h <= t < h
    return z3.And(t >= -h, t < h)


def tdiv(a, b):
    """truncating division of mathematical integers (b != 0)"""
    if is_c(a) and is_c(b):
        q = abs(a) // abs(b)
        return q if (a < 0) == (b < 0) else -q
    if is_c(b) and b > 0:
        return z3.If(a >= 0, a / b, -((-a) / b))
    return z3.If(b > 0, z3.If(a >= 0, a / b, -((-a) / b)), z3.If(a >= 0, -(a / (-b)), (-a) / (-b)))


def trem(a, b):
    q = tdiv(a, b)
    return a - q * b


class Func:
    def __init__(self, name, params, ret):
        self.name, self.params, self.ret = name, params, ret
        self.blocks = {}
        self.order = []


TY = r'(?:i\d+\*{0,3}|\[\d+ x i\d+\]\*{0,2}|void|i8\*\*\*|double|float)'


def parse_module(text):
    funcs, globs = {}, {}
    for m in re.finditer(r'^@([\w.]+) = .*?constant \[(\d+) x i8\] c"((?:[^"\\]|\\[0-9A-Fa-f]{2})*)"', text, re.M):
        raw = m.group(3)
        bs, i = [], 0
        while i < len(raw):
            if raw[i] == '\\':
                bs.append(int(raw[i + 1:i + 3], 16))
                i += 3
            else:
                bs.append(ord(raw[i]))
                i += 1
        if len(bs) != int(m.group(2)):
            raise Unsupported(f"global {m.group(1)} length mismatch")
        globs['@' + m.group(1)] = bs
    for m in re.finditer(r'^define [^@]*?(\S+) @(\w+)\((.*?)\)[^{]*\{\n(.*?)^\}', text, re.M | re.S):
        ret, name, params, body = m.group(1), m.group(2), m.group(3), m.group(4)
        ps = []
        for p in [x.strip() for x in params.split(',') if x.strip()]:
            toks = p.split()
            ps.append((toks[0], toks[-1]))
        f = Func(name, ps, ret)
        cur = '%entry'
        f.blocks[cur] = []
        f.order.append(cur)
        for line in body.split('\n'):
            s = line.split(';')[0].rstrip() if not line.strip().startswith(';') else ''
            if not s.strip():
                continue
            lm = re.match(r'^(\d+|[\w.]+):', s)
            if lm:
                cur = '%' + lm.group(1)
                f.blocks[cur] = []
                f.order.append(cur)
                continue
            f.blocks[cur].append(re.sub(r', !\S+ !\d+', '', s.strip()))
        funcs[name] = f
    return funcs, globs


class Path:
    def __init__(self):
        self.env = {}
        self.mem = {}
        self.pc = []
        self.events = []
        self.block = None
        self.prev = None
        self.idx = 0
        self.nobj = 0
        self.iters = {}
        self.divs = []       # (dividend, divisor, quotient) of every division on the path, in order

    def clone(self):
        p = Path()
        p.env = dict(self.env)
        p.mem = {k: (list(v) if isinstance(v, list) else v) for k, v in self.mem.items()}
        p.pc = list(self.pc)
        p.events = list(self.events)
        p.block, p.prev, p.idx, p.nobj = self.block, self.prev, self.idx, self.nobj
        p.iters = dict(self.iters)
        p.divs = list(self.divs)
        return p


class Exec:
    """depth-first path exploration with solver-checked feasibility"""

    def __init__(self, funcs, globs, externs, max_block_visits=40, timeout_ms=60000):
        self.funcs, self.globs, self.externs = funcs, globs, externs
        self.solver = z3.Solver()
        self.solver.set('timeout', timeout_ms)
        self.max_visits = max_block_visits
        self.failed = []        # (what, model) obligations that can be violated
        self.inconclusive = []
        self.queries = 0
        self.solver_s = 0.0
        self.bases = {}
        self.deadline = None

    # ---- solver helpers
    def check(self, pc, extra):
        import time
        if self.deadline is not None and time.time() > self.deadline:
            if 'time budget exhausted' not in self.inconclusive:
                self.inconclusive.append('time budget exhausted')
            return 'unknown', None
        self.queries += 1
        self.solver.push()
        for c in pc:
            self.solver.add(c)
        for c in extra:
            self.solver.add(c)
        t = time.time()
        r = self.solver.check()
        self.solver_s += time.time() - t
        m = self.solver.model() if r == z3.sat else None
        self.solver.pop()
        return ('sat' if r == z3.sat else 'unsat' if r == z3.unsat else 'unknown'), m

    def oblige(self, path, ok, what):
        """`ok` must hold on this path; if it can fail record it, then continue assuming it"""
        if ok is True:
            return
        if ok is False:
            r, m = self.check(path.pc, [])
            if r == 'sat':
                self.failed.append((what, m, list(path.pc)))
            elif r == 'unknown':
                self.inconclusive.append(what)
            return
        r, m = self.check(path.pc, [z3.Not(ok)])
        if r == 'sat':
            self.failed.append((what, m, list(path.pc)))
        elif r == 'unknown':
            self.inconclusive.append(what)
        path.pc.append(ok)

    def base(self, obj):
        if obj not in self.bases:
            self.bases[obj] = z3.Int(f"BASE_{len(self.bases)}")
        return self.bases[obj]

    # ---- operand evaluation
    def val(self, path, ty, tok):
        tok = tok.strip()
        if ty.endswith('*'):
            if tok == 'null':
                return PtrV(None, 0)
            if tok.startswith('getelementptr'):
                m = re.match(r'getelementptr inbounds \(\[(\d+) x i8\], \[\d+ x i8\]\* (@[\w.]+), i64 0, i64 (\d+)\)', tok)
                if not m:
                    raise Unsupported(f"constant expression {tok}")
                return PtrV(m.group(2), int(m.group(3)))
            if tok.startswith('@'):
                return PtrV(tok, 0)
            return path.env[tok]
        if ty in ('double', 'float'):
            bits = 64 if ty == 'double' else 32
            if tok.startswith('%'):
                v = path.env[tok]
                if not isinstance(v, FpV) or v.bits != bits:
                    raise Unsupported(f"type mismatch for {tok}: {v} as {ty}")
                return v
            try:
                import struct
                x = struct.unpack('>d', bytes.fromhex(tok[2:].rjust(16, '0')))[0] if tok.startswith('0x') else float(tok)
            except Exception:
                raise Unsupported(f"floating-point constant {tok}")
            if x != x or x in (float('inf'), float('-inf')) or x != int(x):
                raise Unsupported(f"non-integral floating-point constant {tok}")
            return FpV(bits, int(x))
        w = int(ty[1:])
        if tok in ('true', 'false'):
            return IntV(1, -1 if tok == 'true' else 0)
        if re.match(r'^-?\d+$', tok):
            return IntV(w, wrap(int(tok), w))
        v = path.env[tok]
        if not isinstance(v, IntV) or v.w != w:
            raise Unsupported(f"type mismatch for {tok}: {v} as {ty}")
        return v

    def size_of(self, obj, path):
        c = self.globs.get(obj)
        if c is not None:
            return len(c)
        c = path.mem.get(obj)
        return len(c) if isinstance(c, list) else 1

    # ---- memory
    def load(self, path, p, ty):
        if p.obj is None:
            self.oblige(path, False, "load through null")
            return None
        if p.obj in self.globs:
            if not (0 <= p.off < len(self.globs[p.obj])):
                self.oblige(path, False, f"load outside global {p.obj}")
                return IntV(8, 0)
            return IntV(8, wrap(self.globs[p.obj][p.off], 8))
        if isinstance(p.obj, tuple) and p.obj[0] == 'argv':
            n = p.obj[1]
            if not (0 <= p.off <= n):
                self.oblige(path, False, "argv index out of range")
            return PtrV(('arg', p.off), 0)
        c = path.mem.get(p.obj, UNDEF)
        if isinstance(c, list):
            if not (0 <= p.off < len(c)):
                self.oblige(path, False, f"load outside object {p.obj} at {p.off}")
                return IntV(8, 0)
            v = c[p.off]
        else:
            if p.off != 0:
                self.oblige(path, False, f"load outside scalar object {p.obj}")
            v = c
        if v is UNDEF:
            self.oblige(path, False, f"load of an uninitialised location {p.obj}+{p.off}")
            return IntV(int(ty[1:]), 0) if not ty.endswith('*') else PtrV(None, 0)
        return v

    def store(self, path, p, v):
        if p.obj is None or p.obj in self.globs or (isinstance(p.obj, tuple) and p.obj[0] in ('argv', 'arg', 'heap')):
            self.oblige(path, False, f"store to {p.obj}")
            return
        c = path.mem.get(p.obj, UNDEF)
        if isinstance(c, list):
            if not (0 <= p.off < len(c)):
                self.oblige(path, False, f"store outside object {p.obj} at offset {p.off} (size {len(c)})")
                return
            c[p.off] = v
        else:
            if p.off != 0:
                self.oblige(path, False, f"store outside scalar object {p.obj}")
                return
            path.mem[p.obj] = v

    # ---- main loop
    def run(self, fname, args, init_pc=()):
        f = self.funcs[fname]
        p0 = Path()
        p0.pc = list(init_pc)
        for (ty, name), a in zip(f.params, args):
            p0.env[name] = a
        p0.block = f.order[0]
        finished = []
        stack = [p0]
        while stack:
            path = stack.pop()
            done = self.run_path(f, path, stack)
            if done is not None:
                finished.append(done)
        return finished

    def run_path(self, f, path, stack):
        while True:
            ins_list = f.blocks[path.block]
            if path.idx == 0:
                path.iters[path.block] = path.iters.get(path.block, 0) + 1
                if path.iters[path.block] > self.max_visits:
                    # unwinding assertion: the path must be infeasible
                    r, m = self.check(path.pc, [])
                    if r != 'unsat':
                        self.failed.append((f"unwinding bound {self.max_visits} exceeded at {path.block}", m, list(path.pc)))
                    return None
            while path.idx < len(ins_list):
                ins = ins_list[path.idx]
                path.idx += 1
                r = self.step(f, path, ins, stack)
                if r == 'ret':
                    return path
                if r == 'dead':
                    return None
                if r == 'jump':
                    break
            else:
                raise Unsupported(f"block {path.block} falls off its end")

    def call_internal(self, g, vals, path, stack):
        """a function of the same module: executed in place on the caller's path (straight-line callees only)"""
        saved = (path.env, path.block, path.prev, path.idx)
        path.env = {name: a for (ty, name), a in zip(g.params, vals)}
        path.block, path.prev, path.idx = g.order[0], None, 0
        depth = getattr(path, 'depth', 0)
        if depth > 8:
            raise Unsupported("call depth")
        path.depth = depth + 1
        result = None
        while True:
            ins_list = g.blocks[path.block]
            jumped = False
            while path.idx < len(ins_list):
                ins = ins_list[path.idx]
                path.idx += 1
                if re.match(r'^br i1 ', ins):
                    raise Unsupported(f"conditional branch inside the internal callee {g.name}")
                r = self.step(g, path, ins, stack)
                if r == 'ret':
                    result = path.env.get('%ret')
                    path.env, path.block, path.prev, path.idx = saved
                    path.depth = depth
                    return result
                if r == 'jump':
                    jumped = True
                    break
                if r == 'dead':
                    raise Unsupported("unreachable inside an internal callee")
            if not jumped:
                raise Unsupported(f"block {path.block} of {g.name} falls off its end")

    def goto(self, path, label):
        path.prev, path.block, path.idx = path.block, label, 0

    def step(self, f, path, ins, stack):
        m = re.match(r'^(%[\w.]+) = (.*)$', ins)
        dst, rhs = (m.group(1), m.group(2)) if m else (None, ins)
        op = rhs.split()[0]
        if op == 'alloca':
            mm = re.match(r'alloca \[(\d+) x i8\]', rhs)
            path.nobj += 1
            obj = f"{f.name}{dst}"
            path.mem[obj] = [UNDEF] * int(mm.group(1)) if mm else UNDEF
            path.env[dst] = PtrV(obj, 0)
            return
        if op == 'store':
            mm = re.match(rf'store ({TY}) (.+?), ({TY}) (%[\w.]+)(?:, align \d+)?$', rhs)
            if not mm:
                raise Unsupported(ins)
            self.store(path, path.env[mm.group(4)], self.val(path, mm.group(1), mm.group(2)))
            return
        if op == 'load':
            mm = re.match(rf'load ({TY}), ({TY}) (%[\w.]+)(?:, align \d+)?$', rhs)
            if not mm:
                raise Unsupported(ins)
            path.env[dst] = self.load(path, path.env[mm.group(3)], mm.group(1))
            return
        if op == 'getelementptr':
            mm = re.match(r'getelementptr inbounds \[(\d+) x i8\], \[\d+ x i8\]\* (%[\w.]+), i64 0, i64 (-?\d+)$', rhs)
            if mm:
                base = path.env[mm.group(2)]
                np_ = PtrV(base.obj, base.off + int(mm.group(3)))
            else:
                mm = re.match(r'getelementptr inbounds (i8|i8\*), (?:i8\*|i8\*\*) (%[\w.]+), i(?:32|64) (-?\d+|%[\w.]+)$', rhs)
                if not mm:
                    raise Unsupported(ins)
                base = path.env[mm.group(2)]
                k = mm.group(3)
                if k.startswith('%'):
                    kv = path.env[k].t
                    if not is_c(kv):
                        raise Unsupported(f"symbolic pointer offset in {ins}")
                    k = kv
                np_ = PtrV(base.obj, base.off + int(k))
            size = self.size_of(np_.obj, path) if not (isinstance(np_.obj, tuple) and np_.obj[0] == 'argv') else np_.obj[1] + 1
            if not (0 <= np_.off <= size):
                self.oblige(path, False, f"getelementptr inbounds leaves object {np_.obj}: offset {np_.off} of {size}")
            path.env[dst] = np_
            return
        if op == 'icmp':
            mm = re.match(rf'icmp (\w+) ({TY}) (.+?), (.+)$', rhs)
            cc, ty = mm.group(1), mm.group(2)
            if ty.endswith('*'):
                raise Unsupported(ins)
            a, b = self.val(path, ty, mm.group(3)), self.val(path, ty, mm.group(4))
            w = a.w
            x, y = a.t, b.t
            if cc[0] == 'u':
                x, y = uns(x, w), uns(y, w)
            c = {'eq': lambda: x == y, 'ne': lambda: x != y, 'slt': lambda: x < y, 'sle': lambda: x <= y,
                 'sgt': lambda: x > y, 'sge': lambda: x >= y, 'ult': lambda: x < y, 'ule': lambda: x <= y,
                 'ugt': lambda: x > y, 'uge': lambda: x >= y}[cc]()
            path.env[dst] = IntV(1, (-1 if c else 0) if isinstance(c, bool) else z3.If(c, -1, 0))
            path.env[dst + '#cond'] = c
            return
        if op == 'br':
            mm = re.match(r'br label (%[\w.]+)$', rhs)
            if mm:
                self.goto(path, mm.group(1))
                return 'jump'
            mm = re.match(r'br i1 (%[\w.]+), label (%[\w.]+), label (%[\w.]+)$', rhs)
            c = path.env.get(mm.group(1) + '#cond')
            if c is None:
                v = path.env[mm.group(1)].t
                c = (v != 0)
            if isinstance(c, bool):
                self.goto(path, mm.group(2) if c else mm.group(3))
                return 'jump'
            rt, _ = self.check(path.pc, [c])
            rf, _ = self.check(path.pc, [z3.Not(c)])
            if rt == 'unknown' or rf == 'unknown':
                self.inconclusive.append(f"feasibility of branch at {path.block}")
            if rt != 'unsat' and rf != 'unsat':
                other = path.clone()
                other.pc.append(z3.Not(c))
                self.goto(other, mm.group(3))
                stack.append(other)
                path.pc.append(c)
                self.goto(path, mm.group(2))
                return 'jump'
            if rt != 'unsat':
                path.pc.append(c)
                self.goto(path, mm.group(2))
                return 'jump'
            if rf != 'unsat':
                path.pc.append(z3.Not(c))
                self.goto(path, mm.group(3))
                return 'jump'
            return 'dead'
        if op in ('shl', 'lshr', 'ashr'):
            mm = re.match(rf'{op}((?: nsw| nuw| exact)*) (i\d+) (.+?), (.+)$', rhs)
            flags, ty = mm.group(1), mm.group(2)
            a, b = self.val(path, ty, mm.group(3)), self.val(path, ty, mm.group(4))
            w = a.w
            if not is_c(b.t):
                raise Unsupported(f"shift by a symbolic amount: {ins}")
            sh = b.t % (1 << w)
            if sh >= w:
                self.oblige(path, False, f"shift amount {sh} >= width in `{ins}` (poison)")
                sh = 0
            if op == 'shl':
                x = a.t * (1 << sh)
                if 'nsw' in flags:
                    self.oblige(path, in_range(x, w), f"signed overflow in `{ins}` (undefined behaviour)")
                path.env[dst] = IntV(w, wrap(x, w))
            elif op == 'lshr':
                ua = uns(a.t, w)
                r = (ua >> sh) if is_c(ua) else ua / (1 << sh)
                path.env[dst] = IntV(w, wrap(r, w))
            else:
                r = (a.t >> sh) if is_c(a.t) else z3.If(a.t >= 0, a.t / (1 << sh), -((-a.t + (1 << sh) - 1) / (1 << sh)))
                path.env[dst] = IntV(w, r)
            return
        if op in ('and', 'or', 'xor'):
            mm = re.match(rf'{op} (i\d+) (.+?), (.+)$', rhs)
            ty = mm.group(1)
            a, b = self.val(path, ty, mm.group(2)), self.val(path, ty, mm.group(3))
            w = a.w
            if is_c(a.t) and is_c(b.t):
                ua, ub = uns(a.t, w), uns(b.t, w)
                r = {'and': ua & ub, 'or': ua | ub, 'xor': ua ^ ub}[op]
                path.env[dst] = IntV(w, wrap(r, w))
                return
            const, var = (b, a) if is_c(b.t) else ((a, b) if is_c(a.t) else (None, None))
            if op == 'and' and const is not None:
                m = uns(const.t, w)
                if m & (m + 1) == 0:          # low-bit mask 2^k - 1
                    path.env[dst] = IntV(w, wrap(uns(var.t, w) % (m + 1), w))
                    return
            if w == 1:
                ca, cb = (a.t != 0), (b.t != 0)
                c = {'and': z3.And(ca, cb), 'or': z3.Or(ca, cb), 'xor': z3.Xor(ca, cb)}[op]
                path.env[dst] = IntV(1, z3.If(c, -1, 0))
                path.env[dst + '#cond'] = c
                return
            raise Unsupported(f"bitwise operation outside the table: {ins}")
        if op in ('add', 'sub', 'mul', 'sdiv', 'udiv', 'srem', 'urem'):
            mm = re.match(rf'{op}((?: nsw| nuw| exact)*) (i\d+) (.+?), (.+)$', rhs)
            flags, ty = mm.group(1), mm.group(2)
            a, b = self.val(path, ty, mm.group(3)), self.val(path, ty, mm.group(4))
            w = a.w
            if op in ('add', 'sub', 'mul'):
                x = {'add': lambda: a.t + b.t, 'sub': lambda: a.t - b.t, 'mul': lambda: a.t * b.t}[op]()
                if 'nsw' in flags:
                    self.oblige(path, in_range(x, w), f"signed overflow in `{ins}` (undefined behaviour)")
                if 'nuw' in flags:
                    ux = {'add': lambda: uns(a.t, w) + uns(b.t, w), 'sub': lambda: uns(a.t, w) - uns(b.t, w),
                          'mul': lambda: uns(a.t, w) * uns(b.t, w)}[op]()
                    self.oblige(path, (0 <= ux < (1 << w)) if is_c(ux) else z3.And(ux >= 0, ux < (1 << w)),
                                f"unsigned overflow in `{ins}` (undefined behaviour)")
                path.env[dst] = IntV(w, wrap(x, w))
                return
            if op in ('sdiv', 'srem'):
                self.oblige(path, (b.t != 0), f"division by zero in `{ins}`")
                ov = z3.And(a.t == -(1 << (w - 1)), b.t == -1) if not (is_c(a.t) and is_c(b.t)) else (a.t == -(1 << (w - 1)) and b.t == -1)
                self.oblige(path, (not ov) if isinstance(ov, bool) else z3.Not(ov), f"overflowing division in `{ins}`")
                path.env[dst] = IntV(w, tdiv(a.t, b.t) if op == 'sdiv' else trem(a.t, b.t))
                if op == 'sdiv':
                    path.divs.append((a.t, b.t, path.env[dst].t))
                return
            if op in ('udiv', 'urem'):
                self.oblige(path, (b.t != 0), f"division by zero in `{ins}`")
                ua, ub = uns(a.t, w), uns(b.t, w)
                if is_c(ua) and is_c(ub):
                    r = ua // ub if op == 'udiv' else ua % ub
                else:
                    r = ua / ub if op == 'udiv' else ua % ub
                path.env[dst] = IntV(w, wrap(r, w))
                if op == 'udiv':
                    path.divs.append((ua, ub, uns(path.env[dst].t, w)))
                return
            raise Unsupported(ins)
        if op in ('trunc', 'sext', 'zext'):
            mm = re.match(rf'{op} (i\d+) (.+?) to (i\d+)$', rhs)
            a = self.val(path, mm.group(1), mm.group(2))
            w2 = int(mm.group(3)[1:])
            if op == 'trunc':
                path.env[dst] = IntV(w2, wrap(a.t, w2))
                if w2 == 1:
                    path.env[dst + '#cond'] = (wrap(a.t, 1) != 0) if is_c(a.t) else (a.t % 2 != 0)
            elif op == 'sext':
                path.env[dst] = IntV(w2, a.t)
            else:
                path.env[dst] = IntV(w2, uns(a.t, a.w))
            return
        if op in ('sitofp', 'uitofp'):
            mm = re.match(rf'{op} (i\d+) (.+?) to (double|float)$', rhs)
            a = self.val(path, mm.group(1), mm.group(2))
            bits = 64 if mm.group(3) == 'double' else 32
            path.env[dst] = FpV(bits, round_to_fp(a.t if op == 'sitofp' else uns(a.t, a.w), bits))
            return
        if op in ('fptosi', 'fptoui'):
            mm = re.match(rf'{op} (double|float) (.+?) to (i\d+)$', rhs)
            a = self.val(path, mm.group(1), mm.group(2))
            w2 = int(mm.group(3)[1:])
            fits = in_range(a.t, w2) if op == 'fptosi' else ((0 <= a.t < (1 << w2)) if is_c(a.t) else z3.And(a.t >= 0, a.t < (1 << w2)))
            self.oblige(path, fits, f"`{ins}`: the value does not fit the integer type (undefined behaviour)")
            path.env[dst] = IntV(w2, wrap(a.t, w2))
            return
        if op in ('fpext', 'fptrunc'):
            mm = re.match(rf'{op} (double|float) (.+?) to (double|float)$', rhs)
            a = self.val(path, mm.group(1), mm.group(2))
            bits = 64 if mm.group(3) == 'double' else 32
            path.env[dst] = FpV(bits, a.t if op == 'fpext' else round_to_fp(a.t, bits))
            return
        if op == 'ptrtoint':
            mm = re.match(r'ptrtoint i8\* (%[\w.]+) to i64$', rhs)
            p = path.env[mm.group(1)]
            path.env[dst] = IntV(64, self.base(p.obj) + p.off)
            return
        if op == 'call':
            mm = re.match(rf'call (?:noalias )?({TY}) @([\w.]+)\((.*)\)', rhs)
            if not mm:
                raise Unsupported(ins)
            rty, callee, argstr = mm.group(1), mm.group(2), mm.group(3)
            args = []
            depth, cur = 0, ''
            for ch in argstr:
                if ch == '(':
                    depth += 1
                if ch == ')':
                    depth -= 1
                if ch == ',' and depth == 0:
                    args.append(cur.strip())
                    cur = ''
                else:
                    cur += ch
            if cur.strip():
                args.append(cur.strip())
            vals = []
            for a in args:
                toks = a.split(' ', 1)
                ty = toks[0]
                rest = toks[1].replace('noundef ', '').strip()
                vals.append(self.val(path, ty, rest))
            if callee not in self.externs and callee in self.funcs:
                r = self.call_internal(self.funcs[callee], vals, path, stack)
            elif callee not in self.externs:
                raise Unsupported(f"call to {callee}")
            else:
                r = self.externs[callee](self, path, vals)
            if dst is not None:
                path.env[dst] = r
            return
        if op == 'ret':
            mm = re.match(rf'ret ({TY})(?: (.+))?$', rhs)
            path.env['%ret'] = self.val(path, mm.group(1), mm.group(2)) if mm.group(2) else None
            return 'ret'
        if op == 'unreachable':
            return 'dead'
        raise Unsupported(ins)

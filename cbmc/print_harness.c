/* E5b - CBMC twin for io.c (shares no code with llir/ir.py).  Proof for |v| < BOUND with unwinding assertions;
   with -DFULL_RANGE the same harness is a bug-hunting search over all int64 values (time-boxed by the caller). */
#include <stdint.h>
#include <stddef.h>
#include <sys/types.h>
#include "io.c"

static char out_buf[40];
static size_t out_n;
static int out_fd;
static int n_writes;

ssize_t write(int fd, const void *p, size_t n) {
  n_writes++;
  out_fd = fd;
  out_n = n;
  __CPROVER_assert(n <= 32, "write length bounded by the buffer");
  for (size_t i = 0; i < n && i < 40; i++) out_buf[i] = ((const char *)p)[i];
  return (ssize_t)n;
}

int64_t nondet_i64(void);

int main(void) {
  int64_t v = nondet_i64();
#ifndef FULL_RANGE
  __CPROVER_assume(v > -(int64_t)BOUND && v < (int64_t)BOUND);
#endif
#ifdef LINE
  println_i64(v);
#else
  print_i64(v);
#endif
  /* independent reference: magnitude as unsigned, number of digits by comparison with powers of ten,
     digit j = (E / 10^j) % 10 */
  uint64_t E = v < 0 ? (uint64_t)0 - (uint64_t)v : (uint64_t)v;
  int k = 1;
  uint64_t p = 10;
  while (k < 20 && E >= p) { k++; if (k < 20) p *= 10; }
  size_t want = (size_t)k + (v < 0 ? 1 : 0);
#ifdef LINE
  want += 1;
#endif
  __CPROVER_assert(n_writes == 1, "exactly one write");
  __CPROVER_assert(out_fd == 1, "to standard output");
  __CPROVER_assert(out_n == want, "length = digits + sign (+ newline)");
  size_t pos = 0;
  if (v < 0) { __CPROVER_assert(out_buf[0] == '-', "leading minus"); pos = 1; }
  uint64_t pw = 1;
  for (int j = 1; j < k; j++) pw *= 10;
  for (int j = 0; j < k; j++) {
    __CPROVER_assert(out_buf[pos + j] == (char)('0' + (E / pw) % 10), "digit");
    pw /= 10;
  }
#ifdef LINE
  __CPROVER_assert(out_buf[pos + k] == '\n', "trailing newline");
#endif
  return 0;
}

//! E0 — `extract`: calls the real compiler code in /repo and serialises what it produced.
//! It contains no compiler logic of its own: requests (one JSON object per line on stdin) are
//! turned into AxCut syntax trees / source texts, handed to the repository's public entry points,
//! and the results are written back as one JSON object per line.

use std::io::{BufRead, Write};
use std::panic::{AssertUnwindSafe, catch_unwind};
use std::rc::Rc;

use axcut::syntax::statements::{
    Call, Clause, Create, Exit, IfC, Invoke, Let, Literal, Op, PrintI64, Substitute, Switch,
    ifc::IfSort,
};
use axcut::syntax::{
    BinOp, Chirality, ContextBinding, Def, Identifier, Prog, Statement, Ty, TypeDeclaration,
    TypingContext, XtorSig,
};
use axcut2backend::coder::compile;
use axcut2backend::config::TemporaryNumber;
use axcut2backend::statements::CodeStatement;
use axcut2backend::utils::Utils;
use printer::Print;
use serde_json::{Value, json};

fn ident(v: &Value) -> Identifier {
    match v {
        Value::String(s) => Identifier {
            name: s.clone(),
            id: 0,
        },
        Value::Array(a) => Identifier {
            name: a[0].as_str().expect("ident name").to_string(),
            id: a[1].as_u64().expect("ident id") as usize,
        },
        _ => panic!("bad identifier {v}"),
    }
}

fn ty(v: &Value) -> Ty {
    match v {
        Value::String(s) if s == "i64" => Ty::I64,
        _ => Ty::Decl(ident(v)),
    }
}

fn chi(v: &Value) -> Chirality {
    match v.as_str().expect("chi") {
        "prd" => Chirality::Prd,
        "cns" => Chirality::Cns,
        "ext" => Chirality::Ext,
        o => panic!("bad chirality {o}"),
    }
}

fn binding(v: &Value) -> ContextBinding {
    ContextBinding {
        var: ident(&v["var"]),
        chi: chi(&v["chi"]),
        ty: ty(&v["ty"]),
    }
}

fn context(v: &Value) -> TypingContext {
    v.as_array()
        .expect("context array")
        .iter()
        .map(binding)
        .collect::<Vec<_>>()
        .into()
}

fn type_decl(v: &Value) -> TypeDeclaration {
    TypeDeclaration {
        name: ident(&v["name"]),
        xtors: v["xtors"]
            .as_array()
            .expect("xtors")
            .iter()
            .map(|x| XtorSig {
                name: ident(&x["name"]),
                args: context(&x["args"]),
            })
            .collect(),
    }
}

fn clause(v: &Value) -> Clause {
    Clause {
        xtor: ident(&v["xtor"]),
        context: context(&v["context"]),
        body: Rc::new(stmt(&v["body"])),
    }
}

fn clauses(v: &Value) -> Vec<Clause> {
    v.as_array().expect("clauses").iter().map(clause).collect()
}

fn stmt(v: &Value) -> Statement {
    let k = v["k"].as_str().expect("statement kind");
    match k {
        "substitute" => Statement::Substitute(Substitute {
            rearrange: v["rearrange"]
                .as_array()
                .expect("rearrange")
                .iter()
                .map(|p| (binding(&p[0]), ident(&p[1])))
                .collect(),
            next: Rc::new(stmt(&v["next"])),
        }),
        "call" => Statement::Call(Call {
            label: ident(&v["label"]),
            args: context(&v["args"]),
        }),
        "let" => Statement::Let(Let {
            var: ident(&v["var"]),
            ty: ty(&v["ty"]),
            tag: ident(&v["tag"]),
            args: context(&v["args"]),
            next: Rc::new(stmt(&v["next"])),
            free_vars_next: None,
        }),
        "switch" => Statement::Switch(Switch {
            var: ident(&v["var"]),
            ty: ty(&v["ty"]),
            clauses: clauses(&v["clauses"]),
            free_vars_clauses: None,
        }),
        "create" => Statement::Create(Create {
            var: ident(&v["var"]),
            ty: ty(&v["ty"]),
            context: if v["context"].is_null() {
                None
            } else {
                Some(context(&v["context"]))
            },
            clauses: clauses(&v["clauses"]),
            free_vars_clauses: None,
            next: Rc::new(stmt(&v["next"])),
            free_vars_next: None,
        }),
        "invoke" => Statement::Invoke(Invoke {
            var: ident(&v["var"]),
            tag: ident(&v["tag"]),
            ty: ty(&v["ty"]),
            args: context(&v["args"]),
        }),
        "literal" => Statement::Literal(Literal {
            lit: v["lit"].as_i64().expect("literal i64"),
            var: ident(&v["var"]),
            next: Rc::new(stmt(&v["next"])),
            free_vars_next: None,
        }),
        "op" => Statement::Op(Op {
            fst: ident(&v["fst"]),
            op: match v["op"].as_str().expect("op") {
                "div" => BinOp::Div,
                "prod" => BinOp::Prod,
                "rem" => BinOp::Rem,
                "sum" => BinOp::Sum,
                "sub" => BinOp::Sub,
                o => panic!("bad op {o}"),
            },
            snd: ident(&v["snd"]),
            var: ident(&v["var"]),
            next: Rc::new(stmt(&v["next"])),
            free_vars_next: None,
        }),
        "print" => Statement::PrintI64(PrintI64 {
            newline: v["newline"].as_bool().expect("newline"),
            var: ident(&v["var"]),
            next: Rc::new(stmt(&v["next"])),
            free_vars_next: None,
        }),
        "ifc" => Statement::IfC(IfC {
            sort: match v["sort"].as_str().expect("sort") {
                "eq" => IfSort::Equal,
                "ne" => IfSort::NotEqual,
                "lt" => IfSort::Less,
                "le" => IfSort::LessOrEqual,
                "gt" => IfSort::Greater,
                "ge" => IfSort::GreaterOrEqual,
                o => panic!("bad sort {o}"),
            },
            fst: ident(&v["fst"]),
            snd: if v["snd"].is_null() {
                None
            } else {
                Some(ident(&v["snd"]))
            },
            thenc: Rc::new(stmt(&v["thenc"])),
            elsec: Rc::new(stmt(&v["elsec"])),
        }),
        "exit" => Statement::Exit(Exit {
            var: ident(&v["var"]),
        }),
        o => panic!("bad statement kind {o}"),
    }
}

fn prog(v: &Value) -> Prog {
    Prog {
        defs: v["defs"]
            .as_array()
            .expect("defs")
            .iter()
            .map(|d| Def {
                name: ident(&d["name"]),
                context: context(&d["context"]),
                body: stmt(&d["body"]),
            })
            .collect(),
        types: v["types"]
            .as_array()
            .expect("types")
            .iter()
            .map(type_decl)
            .collect(),
        max_id: v["max_id"].as_u64().unwrap_or(1000) as usize,
    }
}

fn panic_msg(e: Box<dyn std::any::Any + Send>) -> String {
    if let Some(s) = e.downcast_ref::<String>() {
        s.clone()
    } else if let Some(s) = e.downcast_ref::<&str>() {
        (*s).to_string()
    } else {
        "panic".to_string()
    }
}

fn guarded<T>(f: impl FnOnce() -> T) -> Result<T, String> {
    catch_unwind(AssertUnwindSafe(f)).map_err(panic_msg)
}

fn frag_lines<C: Print>(code: &[C]) -> Vec<String> {
    code.iter().map(|c| c.print_to_string(None)).collect()
}

fn fragment(req: &Value) -> Value {
    let types: Vec<TypeDeclaration> = req["types"]
        .as_array()
        .map(|a| a.iter().map(type_decl).collect())
        .unwrap_or_default();
    let ctx = context(&req["context"]);
    let st = stmt(&req["stmt"]);
    let backend = req["backend"].as_str().expect("backend");
    let res = guarded(|| match backend {
        "x86_64" => {
            let mut is: Vec<axcut2x86_64::code::Code> = Vec::new();
            st.code_statement::<axcut2x86_64::Backend, _, _, _>(&types, ctx, &mut is);
            frag_lines(&is)
        }
        "aarch64" => {
            let mut is: Vec<axcut2aarch64::code::Code> = Vec::new();
            st.code_statement::<axcut2aarch64::Backend, _, _, _>(&types, ctx, &mut is);
            frag_lines(&is)
        }
        "rv64" => {
            let mut is: Vec<axcut2rv64::code::Code> = Vec::new();
            st.code_statement::<axcut2rv64::Backend, _, _, _>(&types, ctx, &mut is);
            is.iter().map(|c| format!("{c}")).collect()
        }
        o => panic!("bad backend {o}"),
    });
    match res {
        Ok(lines) => json!({"ok": true, "lines": lines}),
        Err(m) => json!({"ok": false, "panic": m}),
    }
}

fn temp_x86(t: axcut2x86_64::config::Temporary) -> Value {
    use axcut2x86_64::config::Temporary::*;
    match t {
        Register(r) => json!({"reg": r.print_to_string(None)}),
        Spill(s) => {
            json!({"spill": s.0, "off": axcut2x86_64::config::stack_offset(s).val})
        }
    }
}

fn temp_a64(t: axcut2aarch64::config::Temporary) -> Value {
    use axcut2aarch64::config::Temporary::*;
    match t {
        Register(r) => json!({"reg": r.print_to_string(None)}),
        Spill(s) => {
            json!({"spill": s.0, "off": axcut2aarch64::config::stack_offset(s).print_to_string(None)})
        }
    }
}

fn temp_rv(t: axcut2rv64::config::Register) -> Value {
    json!({"reg": format!("{t}")})
}

fn tempmap(req: &Value) -> Value {
    let n = req["n"].as_u64().expect("n") as usize;
    let backend = req["backend"].as_str().expect("backend");
    let ctx: TypingContext = (0..n)
        .map(|i| ContextBinding {
            var: Identifier {
                name: "v".to_string(),
                id: i + 1,
            },
            chi: Chirality::Ext,
            ty: Ty::I64,
        })
        .collect::<Vec<_>>()
        .into();
    let mut out = Vec::new();
    for i in 0..=n {
        let r = guarded(|| {
            let fst;
            let snd;
            match backend {
                "x86_64" => {
                    type B = axcut2x86_64::Backend;
                    if i < n {
                        fst = temp_x86(B::variable_temporary(TemporaryNumber::Fst, &ctx, i + 1));
                        snd = temp_x86(B::variable_temporary(TemporaryNumber::Snd, &ctx, i + 1));
                    } else {
                        fst = temp_x86(B::fresh_temporary(TemporaryNumber::Fst, &ctx));
                        snd = temp_x86(B::fresh_temporary(TemporaryNumber::Snd, &ctx));
                    }
                }
                "aarch64" => {
                    type B = axcut2aarch64::Backend;
                    if i < n {
                        fst = temp_a64(B::variable_temporary(TemporaryNumber::Fst, &ctx, i + 1));
                        snd = temp_a64(B::variable_temporary(TemporaryNumber::Snd, &ctx, i + 1));
                    } else {
                        fst = temp_a64(B::fresh_temporary(TemporaryNumber::Fst, &ctx));
                        snd = temp_a64(B::fresh_temporary(TemporaryNumber::Snd, &ctx));
                    }
                }
                "rv64" => {
                    type B = axcut2rv64::Backend;
                    if i < n {
                        fst = temp_rv(B::variable_temporary(TemporaryNumber::Fst, &ctx, i + 1));
                        snd = temp_rv(B::variable_temporary(TemporaryNumber::Snd, &ctx, i + 1));
                    } else {
                        fst = temp_rv(B::fresh_temporary(TemporaryNumber::Fst, &ctx));
                        snd = temp_rv(B::fresh_temporary(TemporaryNumber::Snd, &ctx));
                    }
                }
                o => panic!("bad backend {o}"),
            }
            json!([fst, snd])
        });
        match r {
            Ok(v) => out.push(v),
            Err(m) => out.push(json!({"panic": m})),
        }
    }
    json!({"ok": true, "temps": out})
}

fn asm_all(p: &Prog) -> Value {
    let x86 = guarded(|| {
        let code = compile::<axcut2x86_64::Backend, _, _, _>(p.clone());
        let n = code.number_of_arguments;
        let body = frag_lines(&code.instructions);
        let text = axcut2x86_64::into_routine::into_x86_64_routine(code).print_to_string(None);
        json!({"text": text, "nargs": n, "body": body})
    });
    let a64 = guarded(|| {
        let code = compile::<axcut2aarch64::Backend, _, _, _>(p.clone());
        let n = code.number_of_arguments;
        let body = frag_lines(&code.instructions);
        let text = axcut2aarch64::into_routine::into_aarch64_routine(code).print_to_string(None);
        json!({"text": text, "nargs": n, "body": body})
    });
    let rv = guarded(|| {
        let code = compile::<axcut2rv64::Backend, _, _, _>(p.clone());
        let n = code.number_of_arguments;
        let text = axcut2rv64::into_routine::into_rv64_routine(code);
        json!({"text": text, "nargs": n})
    });
    let w = |r: Result<Value, String>| match r {
        Ok(v) => v,
        Err(m) => json!({"panic": m}),
    };
    json!({"x86_64": w(x86), "aarch64": w(a64), "rv64": w(rv)})
}

fn stage<T: std::fmt::Debug + Print>(out: &mut serde_json::Map<String, Value>, name: &str, t: &T) {
    out.insert(
        name.to_string(),
        json!({"debug": format!("{t:?}"), "text": t.print_to_string(None)}),
    );
}

fn stages(req: &Value) -> Value {
    let src = if let Some(s) = req["src"].as_str() {
        s.to_string()
    } else {
        match std::fs::read_to_string(req["path"].as_str().expect("path")) {
            Ok(s) => s,
            Err(e) => return json!({"ok": false, "error": format!("read: {e}")}),
        }
    };
    let want_asm = req["asm"].as_bool().unwrap_or(true);
    let mut out = serde_json::Map::new();
    out.insert("ok".into(), json!(true));
    let parsed = match guarded(|| fun::parser::parse_module(&src)) {
        Ok(Ok(p)) => p,
        Ok(Err(e)) => {
            out.insert("parse_error".into(), json!(format!("{e:?}")));
            return Value::Object(out);
        }
        Err(m) => {
            out.insert("panic".into(), json!({"stage": "parse", "msg": m}));
            return Value::Object(out);
        }
    };
    let checked = match guarded(|| parsed.check()) {
        Ok(Ok(p)) => p,
        Ok(Err(e)) => {
            out.insert("type_error".into(), json!(format!("{e:?}")));
            return Value::Object(out);
        }
        Err(m) => {
            out.insert("panic".into(), json!({"stage": "check", "msg": m}));
            return Value::Object(out);
        }
    };
    out.insert(
        "checked".into(),
        json!({"debug": format!("{checked:?}")}),
    );
    macro_rules! step {
        ($name:expr, $e:expr) => {
            match guarded(|| $e) {
                Ok(v) => v,
                Err(m) => {
                    out.insert("panic".into(), json!({"stage": $name, "msg": m}));
                    return Value::Object(out);
                }
            }
        };
    }
    let compiled = step!("compile", fun2core::program::compile_prog(checked.clone()));
    stage(&mut out, "compiled", &compiled);
    let uniquified = step!("uniquify", {
        let mut c = compiled.clone();
        c.uniquify();
        c
    });
    stage(&mut out, "uniquified", &uniquified);
    let focused = step!("focus", compiled.clone().focus());
    stage(&mut out, "focused", &focused);
    let shrunk = step!("shrink", core2axcut::program::shrink_prog(focused.clone()));
    stage(&mut out, "shrunk", &shrunk);
    let linearized = step!("linearize", {
        let mut s = shrunk.clone();
        s.linearize();
        s
    });
    stage(&mut out, "linearized", &linearized);
    if want_asm {
        out.insert("asm".into(), asm_all(&linearized));
    }
    Value::Object(out)
}

fn axprog(req: &Value) -> Value {
    let p = match guarded(|| prog(&req["prog"])) {
        Ok(p) => p,
        Err(m) => return json!({"ok": false, "panic": m}),
    };
    let mut out = serde_json::Map::new();
    out.insert("ok".into(), json!(true));
    stage(&mut out, "input", &p);
    let lin = if req["linearize"].as_bool().unwrap_or(true) {
        match guarded(|| {
            let mut s = p.clone();
            s.linearize();
            s
        }) {
            Ok(l) => l,
            Err(m) => {
                out.insert("panic".into(), json!({"stage": "linearize", "msg": m}));
                return Value::Object(out);
            }
        }
    } else {
        p.clone()
    };
    stage(&mut out, "linearized", &lin);
    if req["asm"].as_bool().unwrap_or(false) {
        out.insert("asm".into(), asm_all(&lin));
    }
    Value::Object(out)
}

fn examples(req: &Value) -> Value {
    use axcut_examples::*;
    let list: Vec<(&str, fn() -> Prog)> = vec![
        ("arith_print", arith_print),
        ("arith_exit", arith_exit),
        ("closure_print", closure_print),
        ("closure_exit", closure_exit),
        ("either_print", either_print),
        ("either_exit", either_exit),
        ("list_print", list_print),
        ("list_exit", list_exit),
        ("midi_print", midi_print),
        ("midi_exit", midi_exit),
        ("mini_print", mini_print),
        ("mini_exit", mini_exit),
        ("non_linear_print", non_linear_print),
        ("non_linear_exit", non_linear_exit),
        ("quad_print", quad_print),
        ("quad_exit", quad_exit),
    ];
    let want_asm = req["asm"].as_bool().unwrap_or(false);
    let mut out = serde_json::Map::new();
    for (name, f) in list {
        let r = guarded(|| {
            let p = f();
            let mut m = serde_json::Map::new();
            stage(&mut m, "input", &p);
            let lin = guarded(|| {
                let mut s = p.clone();
                s.linearize();
                s
            });
            match lin {
                Ok(l) => {
                    stage(&mut m, "linearized", &l);
                    if want_asm {
                        m.insert("asm".into(), asm_all(&l));
                        m.insert("asm_input".into(), asm_all(&p));
                    }
                }
                Err(e) => {
                    m.insert("panic".into(), json!({"stage": "linearize", "msg": e}));
                    if want_asm {
                        m.insert("asm_input".into(), asm_all(&p));
                    }
                }
            }
            Value::Object(m)
        });
        out.insert(
            name.to_string(),
            match r {
                Ok(v) => v,
                Err(m) => json!({"panic": m}),
            },
        );
    }
    json!({"ok": true, "examples": Value::Object(out)})
}

fn routine(req: &Value) -> Value {
    let n = req["nargs"].as_u64().expect("nargs") as usize;
    let backend = req["backend"].as_str().expect("backend");
    let r = guarded(|| match backend {
        "x86_64" => {
            let p = axcut2backend::coder::AssemblyProg::<axcut2x86_64::code::Code> {
                instructions: vec![],
                number_of_arguments: n,
            };
            frag_lines(&axcut2x86_64::into_routine::into_x86_64_routine(p).instructions)
        }
        "aarch64" => {
            let p = axcut2backend::coder::AssemblyProg::<axcut2aarch64::code::Code> {
                instructions: vec![],
                number_of_arguments: n,
            };
            frag_lines(&axcut2aarch64::into_routine::into_aarch64_routine(p).instructions)
        }
        "rv64" => {
            let p = axcut2backend::coder::AssemblyProg::<axcut2rv64::code::Code> {
                instructions: vec![],
                number_of_arguments: n,
            };
            axcut2rv64::into_routine::into_rv64_routine(p)
                .lines()
                .map(str::to_string)
                .collect()
        }
        o => panic!("bad backend {o}"),
    });
    match r {
        Ok(lines) => json!({"ok": true, "lines": lines}),
        Err(m) => json!({"ok": false, "panic": m}),
    }
}

fn cdriver(req: &Value) -> Value {
    let n = req["nargs"].as_u64().expect("nargs") as usize;
    let dir = req["dir"].as_str().expect("dir");
    let r = guarded(|| {
        std::fs::create_dir_all(dir).expect("mkdir");
        std::env::set_current_dir(dir).expect("chdir");
        let p = driver::generate_c_driver(n, None);
        let io = driver::generate_io_runtime();
        (
            std::fs::canonicalize(p).expect("canon").display().to_string(),
            std::fs::canonicalize(io).expect("canon").display().to_string(),
        )
    });
    match r {
        Ok((p, io)) => json!({"ok": true, "driver": p, "io": io}),
        Err(m) => json!({"ok": false, "panic": m}),
    }
}

fn consts() -> Value {
    json!({"ok": true,
        "x86_64": {"spill_space": axcut2x86_64::config::SPILL_SPACE, "spill_num": axcut2x86_64::config::SPILL_NUM,
                   "fields_per_block": axcut2x86_64::config::FIELDS_PER_BLOCK,
                   "jump_length_1": <axcut2x86_64::Backend as axcut2backend::config::Config<_, _>>::jump_length(1).val},
        "aarch64": {"spill_space": axcut2aarch64::config::SPILL_SPACE, "spill_num": axcut2aarch64::config::SPILL_NUM,
                   "fields_per_block": axcut2aarch64::config::FIELDS_PER_BLOCK},
    })
}

fn main() {
    std::panic::set_hook(Box::new(|_| {}));
    let stdin = std::io::stdin();
    let stdout = std::io::stdout();
    for line in stdin.lock().lines() {
        let line = line.expect("stdin");
        if line.trim().is_empty() {
            continue;
        }
        let resp = match serde_json::from_str::<Value>(&line) {
            Err(e) => json!({"ok": false, "error": format!("json: {e}")}),
            Ok(req) => {
                let r = guarded(|| match req["cmd"].as_str().unwrap_or("") {
                    "fragment" => fragment(&req),
                    "tempmap" => tempmap(&req),
                    "stages" => stages(&req),
                    "axprog" => axprog(&req),
                    "examples" => examples(&req),
                    "routine" => routine(&req),
                    "cdriver" => cdriver(&req),
                    "consts" => consts(),
                    o => json!({"ok": false, "error": format!("unknown cmd {o}")}),
                });
                match r {
                    Ok(v) => v,
                    Err(m) => json!({"ok": false, "panic": m}),
                }
            }
        };
        let mut lock = stdout.lock();
        serde_json::to_writer(&mut lock, &resp).expect("write");
        lock.write_all(b"\n").expect("write");
        lock.flush().expect("flush");
    }
}

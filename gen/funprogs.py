"""Bounded families of well-typed Fun programs (source text).  main's parameters are symbolic in every check.
Every family is instantiated exhaustively over its stated parameters; nothing here is sampled except `extras`."""
import itertools, random

DECLS = """data List[A] { Nil, Cons(x: A, xs: List[A]) }
data Pair[A, B] { Tup(x: A, y: B) }
data Unit { U }
data Either[A, B] { Left(x: A), Right(y: B) }
data Enum3 { E1, E2, E3 }
data Wide { W0, W4(a: i64, b: i64, c: i64, d: i64), W7(a: i64, b: i64, c: i64, d: i64, e: i64, f: i64, g: i64) }
codata Fun[A, B] { apply(x: A): B }
codata Stream[A] { head: A, tail: Stream[A] }
codata Obj3 { m1(x: i64): i64, m2: i64, m3(x: i64, y: i64): i64 }
"""

HELPERS = """def id(x: i64): i64 { x }
def add3(x: i64, y: i64, z: i64): i64 { (x + y) + z }
def sub2(x: i64, y: i64): i64 { x - y }
def sum(l: List[i64]): i64 { l.case[i64] { Nil => 0, Cons(y, ys) => y + sum(ys) } }
def nats(n: i64): Stream[i64] { new { head => n, tail => nats(n + 1) } }
def pick(e: Enum3, a: i64, b: i64, c: i64): i64 { e.case { E1 => a, E2 => b, E3 => c } }
"""


def prog(body, extra_defs="", params="a: i64, b: i64", helpers=True):
    return DECLS + (HELPERS if helpers else "") + extra_defs + f"\ndef main({params}): i64 {{ {body} }}\n"


def name_reuse(names=("v", "x0", "a0", "x")):
    """the continuation mentioning an outer `v` is placed under an inner binder `v` (let / clause / label / parameter)"""
    out = []
    inner = {
        'let': "(let {v}: i64 = b; {v} + 1)",
        'clause': "(Cons(b, Nil).case[i64] {{ Nil => 0, Cons({v}, vs) => {v} + 1 }})",
        'label': "(label {v} {{ if b == 0 {{ goto {v} (7) }} else {{ b + 1 }} }})",
        'cocase': "(new {{ apply({v}) => {v} + 1 }}.apply[i64, i64](b))",
        'tupclause': "(Tup(b, 3).case[i64, i64] {{ Tup({v}, w) => {v} + w }})",
    }
    contexts = {
        'op_r': "{inner} * {v}", 'op_l': "{v} - {inner}", 'call': "sub2({inner}, {v})", 'call_l': "sub2({v}, {inner})",
        'ctor': "sum(Cons({inner}, Cons({v}, Nil)))", 'if': "if {inner} == {v} {{ 1 }} else {{ {v} }}",
        'let_body': "let w: i64 = {inner}; w - {v}", 'print': "println_i64({inner}); {v}",
        'dtor_arg': "new {{ apply(z) => z - {v} }}.apply[i64, i64]({inner})",
    }
    for v in names:
        for ik, itpl in inner.items():
            for ck, ctpl in contexts.items():
                body = ctpl.format(inner=itpl.format(v=v), v=v)
                twin = ctpl.format(inner=itpl.format(v=v + "q"), v=v)     # the same program with the inner binder renamed apart
                # outer binder: let
                out.append({'name': f"reuse/let/{ik}/{ck}/{v}", 'src': prog(f"let {v}: i64 = a; {body}"),
                            'twin': prog(f"let {v}: i64 = a; {twin}")})
            # outer binder: parameter of a function
            body = contexts['op_r'].format(inner=itpl.format(v=v), v=v)
            out.append({'name': f"reuse/param/{ik}/op_r/{v}",
                        'src': prog(f"f(a, b)", extra_defs=f"def f({v}: i64, b: i64): i64 {{ {body} }}\n")})
            # outer binder: clause variable
            out.append({'name': f"reuse/clause/{ik}/op_r/{v}",
                        'src': prog(f"Cons(a, Nil).case[i64] {{ Nil => 0, Cons({v}, rest) => {body} }}")})
        # outer label (falling through) / covariable parameter, inner let of the same name whose bound term or body contains a
        # conditional in non-tail position: the shared continuation has a variable and a covariable of one name free
        out.append({'name': f"reuse/label/let-if-bound/{v}",
                    'src': prog(f"label {v} {{ let {v}: i64 = (if a == 0 {{ 1 }} else {{ b }}); {v} + 10 }}")})
        out.append({'name': f"reuse/label/let-if-body/{v}",
                    'src': prog(f"label {v} {{ let {v}: i64 = a + 1; (if {v} == b {{ 1 }} else {{ {v} }}) * 3 }}")})
        out.append({'name': f"reuse/label/let-case-body/{v}",
                    'src': prog(f"label {v} {{ let {v}: i64 = a + 1; (Cons(b, Nil).case[i64] {{ Nil => 0, Cons(h, t) => h + {v} }}) - {v} }}")})
        out.append({'name': f"reuse/cnsparam/let-if/{v}",
                    'src': prog(f"label out {{ f(a, out) + 1000 }}",
                                extra_defs=f"def f(x: i64, {v}: cns i64): i64 {{ let r: i64 = (let {v}: i64 = (if x == 0 {{ 1 }} else {{ 2 }}); {v} + 100); if r == 101 {{ goto {v} (r + 1) }} else {{ r - b0(x) }} }}\ndef b0(x: i64): i64 {{ x }}\n")})
        # outer label, inner let of the same name; the label is used after the inner scope
        out.append({'name': f"reuse/label/let/{v}",
                    'src': prog(f"label {v} {{ (let {v}: i64 = b; {v} + 1) + (if a == 0 {{ goto {v} (5) }} else {{ a }}) }}")})
    return out


def generated_names():
    out = []
    for nm in ("x0", "x1", "a0", "a1", "share_main_0", "lift_main_0", "x", "a", "cleanup", "lab1", "asm_main", "main_", "k", "ret"):
        out.append({'name': f"names/var/{nm}", 'src': prog(f"let {nm}: i64 = a + 1; if b == 0 {{ {nm} * 2 }} else {{ {nm} - b }}")})
        out.append({'name': f"names/def/{nm}", 'src': prog(f"{nm}(a, b)", extra_defs=f"def {nm}(p: i64, q: i64): i64 {{ if p == q {{ p }} else {{ p - q }} }}\n")})
        out.append({'name': f"names/label/{nm}", 'src': prog(f"label {nm} {{ if a == b {{ goto {nm} (a) }} else {{ a - b }} }}")})
    # sequenced conditionals produce shared continuations (share_main_k); user definitions with such names
    out.append({'name': "names/share-clash", 'src': prog("let r: i64 = (if a == 0 { 1 } else { 2 }); let s: i64 = (if b == 0 { r } else { r + 1 }); share_main_0(s, r)",
                                                         extra_defs="def share_main_0(p: i64, q: i64): i64 { p * q }\n")})
    return out


def effects_in_arguments():
    """effects (print / exit / goto / let of a printing term) in every argument position of every construct"""
    out = []
    eff = {
        'print': "(print_i64({e}); {e})", 'println': "(println_i64({e} + 1); {e})",
        'exit': "(if {e} == 3 {{ exit 9 }} else {{ {e} }})", 'goto': "(if {e} == 4 {{ goto k ({e}) }} else {{ {e} + 1 }})",
        'nested': "id((print_i64({e}); {e}) + (print_i64({e} + 1); 1))",
    }
    ctxs = {
        'call3': "add3({x}, {y}, {z})", 'ctor': "sum(Cons({x}, Cons({y}, Cons({z}, Nil))))", 'op': "({x} - {y}) * {z}",
        'dtor': "(new {{ m1(p) => p + 1, m2 => 2, m3(p, q) => p - q }}.m3({x}, {y})) + {z}",
        'if': "if {x} == {y} {{ {z} }} else {{ 0 - {z} }}", 'print': "println_i64({x}); println_i64({y}); {z}",
        'pick': "pick(E2, {x}, {y}, {z})", 'wide': "W4({x}, {y}, {z}, 4).case {{ W0 => 0, W4(p, q, r, s) => ((p - q) * r) + s, W7(p, q, r, s, t, u, w) => p }}",
    }
    for ek, et in eff.items():
        for ck, ct in ctxs.items():
            body = ct.format(x=et.format(e="a"), y=et.format(e="b"), z=et.format(e="(a - b)"))
            out.append({'name': f"effects/{ek}/{ck}", 'src': prog("label k { " + body + " }")})
    return out


def cut_shapes():
    """producer/consumer shapes of cuts at integer, data and codata types with 1..3 xtors"""
    out = []
    bodies = {
        'lit-mutilde': "let x: i64 = 5; x + a",
        'op-mutilde': "let x: i64 = a * b; x - 1",
        'mu-mutilde-int': "let x: i64 = (label l { if a == 0 { goto l (1) } else { 2 } }); x + b",
        'ctor-case1': "Tup(a, b).case[i64, i64] { Tup(p, q) => p - q }",
        'ctor-case2': "Cons(a, Nil).case[i64] { Nil => b, Cons(p, q) => p }",
        'ctor-case3': "E3.case { E1 => a, E2 => b, E3 => a - b }",
        'var-case3': "let e: Enum3 = (if a == 0 { E1 } else { if a == 1 { E2 } else { E3 } }); e.case { E1 => b, E2 => b + 1, E3 => b + 2 }",
        'case-of-case': "(Cons(a, Nil).case[i64] { Nil => Nil, Cons(p, q) => Cons(p + 1, q) }).case[i64] { Nil => 0, Cons(r, s) => r * b }",
        'case-of-call': "sum(Cons(a, Cons(b, Nil))).case",
        'mu-case-data': "(label l { if a == 0 { goto l (Nil) } else { Cons(a, Nil) } }).case[i64] { Nil => b, Cons(p, q) => p }",
        'cocase-dtor1': "new { apply(x) => x * a }.apply[i64, i64](b)",
        'cocase-dtor2': "new { head => a, tail => nats(b) }.tail[i64].head[i64]",
        'cocase-dtor3': "new { m1(x) => x + a, m2 => b, m3(x, y) => x - y }.m2",
        'var-dtor3': "let o: Obj3 = new { m1(x) => x + a, m2 => b, m3(x, y) => x - y }; ((o.m1(1)) + (o.m2)) + (o.m3(a, b))",
        'mu-dtor': "(label l { if a == 0 { goto l (new { apply(x) => 1 }) } else { new { apply(x) => x + b } } }).apply[i64, i64](a)",
        'let-codata': "let f: Fun[i64, i64] = new { apply(x) => x - b }; (f.apply[i64, i64](a)) + (f.apply[i64, i64](1))",
        'let-mu-codata': "let f: Fun[i64, i64] = (if a == 0 { new { apply(x) => x } } else { new { apply(x) => x + b } }); f.apply[i64, i64](2)",
        'stream': "(nats(a).tail[i64].tail[i64].head[i64]) + b",
        'eta-data': "let l: List[i64] = (if a == 0 { Nil } else { Cons(a, Nil) }); let m: List[i64] = l; sum(m) + b",
        'cns-param': "label k { mult2(Cons(a, Cons(b, Nil)), k) }",
        'int-cont': "label k { (if a == 0 { goto k (b) } else { a }) + 1 }",
    }
    extra = "def mult2(l: List[i64], k: cns i64): i64 { l.case[i64] { Nil => 1, Cons(x, xs) => if x == 0 { goto k (0) } else { x * mult2(xs, k) } } }\n"
    for k, body in bodies.items():
        if k == 'case-of-call':
            continue
        out.append({'name': f"cuts/{k}", 'src': prog(body, extra_defs=extra)})
    return out


def live_variables():
    """0..16 live variables, constructors with up to 7 fields, five parameters"""
    out = []
    for n in (1, 3, 5, 6, 7, 9, 12, 13, 14, 16):
        lets = ' '.join(f"let v{i}: i64 = a + {i};" for i in range(n))
        use = "v0"
        for i in range(1, n):
            use = f"({use} + v{i})"

        out.append({'name': f"live/{n}", 'src': prog(f"{lets} println_i64(v0); let r: i64 = {use}; println_i64(r - b); r - v{n - 1}")})
        out.append({'name': f"live-case/{n}", 'src': prog(f"{lets} let l: List[i64] = Cons(v{n - 1}, Nil); l.case[i64] {{ Nil => 0, Cons(h, t) => h + ({use}) }}")})
    out.append({'name': "wide/W7", 'src': prog("let w: Wide = W7(a, b, a + b, a - b, 5, a * b, 7); w.case { W0 => 0, W4(p, q, r, s) => p, W7(p, q, r, s, t, u, x) => (((p - q) + r) * s) + ((t - u) + x) }")})
    out.append({'name': "wide/W4-shared", 'src': prog("let w: Wide = W4(a, b, 3, 4); let r: i64 = w.case { W0 => 0, W4(p, q, r, s) => p - q, W7(p, q, r, s, t, u, x) => p }; w.case { W0 => r, W4(p, q, x, s) => (r + x) + s, W7(p, q, x, s, t, u, y) => p }")})
    out.append({'name': "params/5", 'src': prog("println_i64(a); println_i64(e); ((a - b) * c) + (d - e)", params="a: i64, b: i64, c: i64, d: i64, e: i64")})
    out.append({'name': "params/0", 'src': prog("println_i64(7); 3", params="")})
    out.append({'name': "divrem", 'src': prog("println_i64(a / b); println_i64(a % b); (a / 3) + (b % 7)")})
    out.append({'name': "cmp-all", 'src': prog("(if a < b { 1 } else { 0 }) + ((if a <= b { 2 } else { 0 }) + ((if a > b { 4 } else { 0 }) + ((if a >= b { 8 } else { 0 }) + ((if a != b { 16 } else { 0 }) + ((if a == b { 32 } else { 0 }) + (if a < 0 { 64 } else { if b >= 0 { 128 } else { 256 } }))))))")})
    out.append({'name': "lits", 'src': prog("println_i64(2147483648 + a); println_i64(0 - 9223372036854775807); println_i64(1311768467463790320 - b); println_i64(281474976710655); 65536 * a")})
    out.append({'name': "loop", 'src': prog("count(3, a)", extra_defs="def count(n: i64, acc: i64): i64 { if n == 0 { acc } else { count(n - 1, acc + n) } }\n")})
    out.append({'name': "list-build-drop", 'src': prog("loop(4, a)", extra_defs="def build(n: i64): List[i64] { if n == 0 { Nil } else { Cons(n, build(n - 1)) } }\ndef loop(n: i64, acc: i64): i64 { if n == 0 { acc } else { loop(n - 1, acc + sum(build(n))) } }\n")})
    out.append({'name': "closures-shared", 'src': prog("let f: Fun[i64, i64] = new { apply(x) => x + a }; let g: Fun[i64, i64] = new { apply(y) => (f.apply[i64, i64](y)) * b }; (g.apply[i64, i64](1)) + (f.apply[i64, i64](2))")})
    return out


def fresh_clash():
    """user names of the form the compiler generates (a<k>, x<k>, share_<f>_<k>) in scopes inside which the compiler
    has to invent fresh names (clause continuations, operands in argument position, shared continuations)"""
    out = []
    for nm in ("a0", "a1", "a2", "x0", "x1", "x2", "a", "x"):
        out.append({'name': f"fresh/label-cocase/{nm}", 'src': prog(
            f"label {nm} {{ let f: Fun[i64, i64] = new {{ apply(y) => if y == a {{ goto {nm} (b) }} else {{ y }} }}; (f.apply[i64, i64](5)) + 1 }}")})
        out.append({'name': f"fresh/label-operand/{nm}", 'src': prog(
            f"label {nm} {{ sub2(id(a), (if a == b {{ goto {nm} (7) }} else {{ id(b) }})) * 2 }}")})
        out.append({'name': f"fresh/var-cocase/{nm}", 'src': prog(
            f"let {nm}: i64 = a + 1; let f: Fun[i64, i64] = new {{ apply(y) => y - {nm} }}; (f.apply[i64, i64](b)) - sub2(id({nm}), id(b))")})
        out.append({'name': f"fresh/var-case/{nm}", 'src': prog(
            f"let {nm}: i64 = a - 1; (Cons(id(b), Nil).case[i64] {{ Nil => {nm}, Cons(h, t) => sub2(id(h), id({nm})) }}) + {nm}")})
        out.append({'name': f"fresh/cns-param/{nm}", 'src': prog(
            f"label k {{ g(a, b, k) + 1 }}",
            extra_defs=f"def g(p: i64, q: i64, {nm}: cns i64): i64 {{ let f: Fun[i64, i64] = new {{ apply(y) => if y == q {{ goto {nm} (y) }} else {{ y + p }} }}; f.apply[i64, i64](p) }}\n")})
    for k in range(0, 3):
        body = "let r: i64 = (if a == 0 { 1 } else { 2 }); let s: i64 = (if b == 0 { r } else { r + 1 }); let t: i64 = (if a == b { s } else { s + r }); " + f"share_main_{k}(t, r)"
        out.append({'name': f"fresh/share-def/{k}", 'src': prog(body, extra_defs=f"def share_main_{k}(p: i64, q: i64): i64 {{ p * q }}\n")})
    return out


def lift_order():
    """statements that are lifted / shared with several free variables whose binding order differs from their
    alphabetical order (and which have equal types, so that a swap stays well-typed)"""
    out = []
    defs = ("def mkE(p: i64, q: i64): Enum3 { if p == q { E1 } else { if p < q { E2 } else { E3 } } }\n"
            "def mkL(p: i64, q: i64): List[i64] { if p == q { Nil } else { Cons(p, Nil) } }\n"
            "def mkF(p: i64, q: i64): Fun[i64, i64] { new { apply(y) => (y + p) - q } }\n"
            "def mkO(p: i64, q: i64): Obj3 { new { m1(y) => y + p, m2 => q, m3(y, z) => y - z } }\n"
            "def mkS(p: i64, q: i64): Stream[i64] { new { head => p, tail => nats(q) } }\n")
    uses = {
        'Enum3': ("mkE(a, b)", "s.case { E1 => 1, E2 => 2, E3 => 3 }"),
        'List[i64]': ("mkL(a, b)", "s.case[i64] { Nil => 0, Cons(h, t) => h }"),
        'Fun[i64, i64]': ("mkF(a, b)", "s.apply[i64, i64](1)"),
        'Obj3': ("mkO(a, b)", "(s.m1(1)) + (s.m2)"),
        'Stream[i64]': ("mkS(a, b)", "s.tail[i64].head[i64]"),
    }
    orders = [("z", "y"), ("q", "p"), ("y", "z"), ("v2", "v10")]
    for ty, (mk, use) in uses.items():
        for (n1, n2) in orders:
            body = (f"let {n1}: i64 = a - b; let {n2}: i64 = a + b; let s: {ty} = {mk}; "
                    f"println_i64({n2}); println_i64({n1}); let r: i64 = {use}; (r + {n1}) - (2 * {n2})")
            out.append({'name': f"lift/{ty.split('[')[0]}/{n1}-{n2}", 'src': prog(body, extra_defs=defs)})
            body2 = (f"let {n1}: i64 = a - b; let {n2}: i64 = a + b; let r: i64 = (let s: {ty} = {mk}; {use}); "
                     f"println_i64({n2}); println_i64({n1}); (r + {n1}) - (2 * {n2})")
            out.append({'name': f"lift-inner/{ty.split('[')[0]}/{n1}-{n2}", 'src': prog(body2, extra_defs=defs)})
    # shared continuations of conditionals with several free variables in non-alphabetical binding order
    for (n1, n2) in orders:
        body = (f"let {n1}: i64 = a - b; let {n2}: i64 = a + b; let c: i64 = (if a == b {{ {n1} }} else {{ {n2} }}); "
                f"println_i64({n2}); println_i64({n1}); (c + {n1}) - (2 * {n2})")
        out.append({'name': f"share-order/{n1}-{n2}", 'src': prog(body)})
    return out


def positions_and_codata():
    """(i) name reuse where the rebound name is NOT the first of a simultaneous renaming: non-first parameters,
    second pattern variables, with an earlier binder that is not rebound; (ii) codata-typed bindings whose bound term
    has an effect and may never yield a value (consumer first at codata types); (iii) self-application and closures
    passed to their own destructors; (iv) the same variable several times in one argument list"""
    out = []
    extra = ("codata U { app(u: U): i64 }\n"
             "def pickp(n: i64, x: i64, l: List[i64]): i64 { l.case[i64] { Nil => n, Cons(x, xs) => x } }\n"
             "def pickq(n: i64, x: i64, y: i64, p: Pair[i64, i64]): i64 { p.case[i64, i64] { Tup(w, y) => (x - y) + n } }\n"
             "def pickr(x: i64, y: i64, f: Fun[i64, i64]): i64 { (new { apply(y) => y - x }.apply[i64, i64](f.apply[i64, i64](y))) + y }\n"
             "def picks(n: i64, x: i64, l: List[i64]): i64 { l.case[i64] { Nil => n, Cons(h, x) => x.case[i64] { Nil => h - n, Cons(n, t) => n + h } } }\n")
    out.append({'name': 'pos/param2-clause1', 'src': prog("pickp(a, b, Cons(a - b, Nil)) + pickp(1, a, Nil)", extra_defs=extra)})
    out.append({'name': 'pos/param3-clause2', 'src': prog("pickq(a, b, 7, Tup(b, a - 1))", extra_defs=extra)})
    out.append({'name': 'pos/param2-cocase', 'src': prog("pickr(a, b, new { apply(x) => x * 2 })", extra_defs=extra)})
    out.append({'name': 'pos/nested-patterns', 'src': prog("picks(a, b, Cons(b, Cons(a - b, Nil))) + picks(a, b, Cons(3, Nil))", extra_defs=extra)})
    out.append({'name': 'pos/outer-clause2-inner-clause1', 'src': prog("Tup(a, b).case[i64, i64] { Tup(w, v) => (Cons(w - v, Nil).case[i64] { Nil => v, Cons(v, r) => v + w }) - v }", extra_defs=extra)})
    # codata bindings with effects
    out.append({'name': 'codata-eff/print-exit-unused', 'src': prog("let f: Fun[i64, i64] = (println_i64(a); exit b); println_i64(b); 0", extra_defs=extra)})
    out.append({'name': 'codata-eff/print-exit-used', 'src': prog("let f: Fun[i64, i64] = (println_i64(a); exit b); println_i64(b); f.apply[i64, i64](1)", extra_defs=extra)})
    out.append({'name': 'codata-eff/print-value-used-twice', 'src': prog("let f: Fun[i64, i64] = (println_i64(a); new { apply(x) => x + b }); println_i64(b); (f.apply[i64, i64](1)) + (f.apply[i64, i64](2))", extra_defs=extra)})
    out.append({'name': 'codata-eff/goto', 'src': prog("(label k { let x: Fun[i64, i64] = (println_i64(a); goto k (new { apply(z) => z + 100 })); println_i64(b); new { apply(z) => z + 200 } }).apply[i64, i64](a)", extra_defs=extra)})
    out.append({'name': 'codata-eff/if-exit-goto', 'src': prog("(label k { let x: Stream[i64] = (if a == 0 { exit 3 } else { goto k (nats(b)) }); println_i64(7); nats(a) }).head[i64]", extra_defs=extra)})
    out.append({'name': 'codata-eff/stream-head', 'src': prog("let s: Stream[i64] = new { head => (println_i64(a); a), tail => nats(b) }; println_i64(b); (s.head[i64]) + (s.head[i64])", extra_defs=extra)})
    # self-application, closures passed to their own methods, repeated arguments
    out.append({'name': 'self/app-captured', 'src': prog("let u: U = new { app(v) => a }; u.app(u)", extra_defs=extra)})
    out.append({'name': 'self/app-twice', 'src': prog("let u: U = new { app(v) => (v.app(new { app(w) => b })) + a }; (u.app(u)) - b", extra_defs=extra)})
    out.append({'name': 'self/fun-of-fun', 'src': prog("let f: Fun[i64, i64] = new { apply(x) => x + a }; sub2(f.apply[i64, i64](b), f.apply[i64, i64](b))", extra_defs=extra)})
    out.append({'name': 'dup/args', 'src': prog("add3(a, a, a) + (sub2(b, b) + sum(Cons(a, Cons(a, Cons(b, Cons(a, Nil))))))", extra_defs=extra)})
    out.append({'name': 'dup/ctor-obj', 'src': prog("let l: List[i64] = Cons(a, Nil); let p: Pair[i64, i64] = Tup(sum(l), sum(l)); p.case[i64, i64] { Tup(x, y) => (x + y) + sum(l) }", extra_defs=extra)})
    return out


def clause_orders_and_nested_types():
    """(i) case / cocase clauses written in an order different from the declaration order, selected by run-time values;
    (ii) parameterised types as non-last type arguments (type names with nested brackets end up in labels)"""
    import itertools
    out = []
    extra = ("def mkE(p: i64, q: i64): Enum3 { if p == q { E1 } else { if p < q { E2 } else { E3 } } }\n"
             "def mkL(p: i64, q: i64): List[i64] { if p == q { Nil } else { Cons(p, Nil) } }\n"
             "def mkW(p: i64, q: i64): Wide { if p == q { W0 } else { if p < q { W4(p, q, 3, 4) } else { W7(p, q, 3, 4, 5, 6, 7) } } }\n"
             "def mkX(p: i64, q: i64): Either[List[i64], i64] { if p < q { Left(Cons(p, Nil)) } else { Right(q) } }\n"
             "def mkY(p: i64, q: i64): Pair[List[i64], i64] { Tup(Cons(p, Cons(q, Nil)), p - q) }\n"
             "def mkZ(p: i64, q: i64): Either[Pair[i64, i64], List[i64]] { if p < q { Left(Tup(p, q)) } else { Right(Cons(q, Nil)) } }\n")
    e_clauses = {'E1': "E1 => a + 1", 'E2': "E2 => b + 2", 'E3': "E3 => (a - b) + 3"}
    for perm in itertools.permutations(['E1', 'E2', 'E3']):
        body = "mkE(a, b).case { " + ", ".join(e_clauses[c] for c in perm) + " }"
        out.append({'name': f"clause-order/enum/{''.join(perm)}", 'src': prog(body, extra_defs=extra)})
    out.append({'name': "clause-order/list/ConsNil", 'src': prog("mkL(a, b).case[i64] { Cons(h, t) => h + 10, Nil => b }", extra_defs=extra)})
    w_clauses = {'W0': "W0 => 0", 'W4': "W4(p, q, r, s) => (p - q) + s", 'W7': "W7(p, q, r, s, t, u, w) => (p - q) + w"}
    for perm in (['W7', 'W0', 'W4'], ['W4', 'W7', 'W0'], ['W0', 'W7', 'W4']):
        out.append({'name': f"clause-order/wide/{''.join(perm)}", 'src': prog("mkW(a, b).case { " + ", ".join(w_clauses[c] for c in perm) + " }", extra_defs=extra)})
    o_clauses = {'m1': "m1(x) => x + a", 'm2': "m2 => b", 'm3': "m3(x, y) => x - y"}
    for perm in itertools.permutations(['m1', 'm2', 'm3']):
        body = "let o: Obj3 = new { " + ", ".join(o_clauses[c] for c in perm) + " }; ((o.m1(1)) + (o.m2)) + (o.m3(a, b))"
        out.append({'name': f"clause-order/obj/{''.join(perm)}", 'src': prog(body, extra_defs=extra)})
    out.append({'name': "clause-order/stream/tailhead", 'src': prog("(new { tail => nats(b), head => a }.tail[i64].head[i64]) + (new { tail => nats(b), head => a }.head[i64])", extra_defs=extra)})
    out.append({'name': "nested-type/either-list-first", 'src': prog("mkX(a, b).case[List[i64], i64] { Left(l) => sum(l), Right(r) => r + 1 }", extra_defs=extra)})
    out.append({'name': "nested-type/pair-list-first", 'src': prog("mkY(a, b).case[List[i64], i64] { Tup(l, r) => sum(l) + r }", extra_defs=extra)})
    extra2 = extra + ("def useX(e: Either[List[i64], i64], d: i64): i64 { e.case[List[i64], i64] { Left(l) => sum(l) + d, Right(r) => r - d } }\n"
                      "def useY(e: Pair[List[i64], i64]): i64 { e.case[List[i64], i64] { Tup(l, r) => sum(l) - r } }\n"
                      "def useZ(e: Either[Pair[i64, i64], List[i64]]): i64 { e.case[Pair[i64, i64], List[i64]] { Left(p) => p.case[i64, i64] { Tup(x, y) => x - y }, Right(l) => sum(l) } }\n")
    out.append({'name': "nested-type/switch-on-parameter", 'src': prog("(useX(mkX(a, b), 1) + useY(mkY(a, b))) - useZ(mkZ(a, b))", extra_defs=extra2)})
    out.append({'name': "nested-type/switch-on-let", 'src': prog("let e: Either[List[i64], i64] = mkX(a, b); let f: Either[List[i64], i64] = mkX(b, a); (e.case[List[i64], i64] { Left(l) => sum(l), Right(r) => r + 1 }) - (f.case[List[i64], i64] { Left(l) => 7, Right(r) => r })", extra_defs=extra2)})
    out.append({'name': "nested-type/either-pair-list", 'src': prog("mkZ(a, b).case[Pair[i64, i64], List[i64]] { Right(l) => sum(l), Left(p) => p.case[i64, i64] { Tup(x, y) => x - y } }", extra_defs=extra)})
    return out


def argument_permutations(tier='quick'):
    """recursive calls whose arguments permute the caller's parameters across the register / spill boundary (x86-64: the 7th
    variable onwards; AArch64: the 14th): the substitution before the call is a permutation with cycles through registers
    and spill slots.  All non-identity permutations of each window of three positions."""
    out = []
    exprs = ["a", "b", "a + b", "a - b", "2 * a", "3 * b", "a + 3", "b - 5", "(2 * a) + b", "a - 7", "b + 11", "(3 * a) - b",
             "a + 13", "b - 17", "(a + b) + 19", "a - 23", "b + 29"]
    cfgs = [(9, [(4, 5, 6), (5, 6, 7), (6, 7, 8), (3, 6, 7)])]
    if tier == 'quick':
        cfgs.append((16, [(12, 13, 14)]))
    else:
        cfgs.append((16, [(11, 12, 13), (12, 13, 14), (13, 14, 15), (3, 13, 14)]))
        cfgs.append((9, [(0, 5, 6), (2, 7, 8), (5, 7, 8)]))
    for n, windows in cfgs:
        names = [f"p{i}" for i in range(n)]
        params = ", ".join(f"{x}: i64" for x in names) + ", k: i64"
        for w in windows:
            for perm in itertools.permutations(w):
                if perm == w:
                    continue
                args = list(names)
                for src_pos, dst_pos in zip(perm, w):
                    args[dst_pos] = names[src_pos]
                shown = "; ".join(f"println_i64(p{i})" for i in w)
                body = (f"if k == 0 {{ {shown}; (p{w[0]} - p{w[1]}) + (2 * p{w[2]}) }} "
                        f"else {{ rot({', '.join(args)}, k - 1) }}")
                defs = f"def rot({params}): i64 {{ {body} }}\n"
                call = f"rot({', '.join(exprs[:n])}, 1)"
                out.append({'name': f"argperm/{n}/{'-'.join(map(str, w))}/{'-'.join(map(str, perm))}", 'src': prog(call, extra_defs=defs)})
    return out


def scrutinee_reuse():
    """a clause binder is matched on as the first statement of the clause and used again inside its own clause, while the
    sibling binder is dead or live (the dead one is still in the environment at the inner switch)"""
    out = []
    mk = "def mkP(p: i64, q: i64): Pair[List[i64], List[i64]] { Tup(Cons(p, Nil), Cons(q, Cons(p, Nil))) }\n"
    for scr, other in (("l1", "l2"), ("l2", "l1")):
        for other_live in (False, True):
            for again in ("sum({s})", "({s}.case[i64] {{ Nil => 0, Cons(z, zs) => z }})"):
                extra_use = f" + sum({other})" if other_live else ""
                body = (f"{scr}.case[i64] {{ Nil => 0, Cons(y, ys) => (y + {again.format(s=scr)}){extra_use} }}")
                defs = mk + f"def f(p: Pair[List[i64], List[i64]]): i64 {{ p.case[List[i64], List[i64]] {{ Tup(l1, l2) => {body} }} }}\n"
                out.append({'name': f"scrutinee-reuse/{scr}/{'live' if other_live else 'dead'}/{'call' if 'sum' in again else 'case'}",
                            'src': prog("f(mkP(a, b))", extra_defs=defs)})
    return out


def nested_labels():
    """labels nested in tail position of labels / goto arguments, with an inner label that reuses the outer or the middle
    label's name (or a fresh one) in tail, operand or argument position, and jumps to the middle and to the outer label"""
    out = []
    ctxs = {'tail': "{t}", 'operand': "n + {t}", 'argument': "id({t})", 'let': "let w: i64 = {t}; w + n"}
    for inner in ("k", "a", "j"):
        for ck, ctpl in ctxs.items():
            for outer_form in ("label", "goto"):
                t = f"(label {inner} {{ if m == 0 {{ goto a (100) }} else {{ if m == 1 {{ goto k (7) }} else {{ goto {inner} (m) }} }} }})"
                mid = f"label a {{ {ctpl.format(t=t)} }}"
                body = f"label k {{ {mid} }}" if outer_form == "label" else f"label k {{ goto k ({mid}) }}"
                defs = f"def f(n: i64, m: i64): i64 {{ {body} }}\n"
                out.append({'name': f"nested-labels/{outer_form}/{inner}/{ck}", 'src': prog("println_i64(f(a, b)); f(b, a)", extra_defs=defs)})
    return out


def covariable_arguments():
    """destructors and definitions with TWO explicit covariable parameters next to the implicit return continuation, in
    every position relative to the value parameters; the body leaves through the first, the second and the implicit one"""
    out = []
    orders = [("err", "ok", "x", "lim"), ("x", "err", "lim", "ok"), ("x", "lim", "err", "ok"), ("ok", "x", "err", "lim")]
    ty = {"err": "cns i64", "ok": "cns i64", "x": "i64", "lim": "i64"}
    body = "if x < lim { goto ok (x) } else { if x == lim { x + 1 } else { goto err (lim) } }"
    for o in orders:
        sig = ", ".join(f"{v}: {ty[v]}" for v in o)
        actual = {"err": "fail", "ok": "done", "x": "x", "lim": "lim"}
        args = ", ".join(actual[v] for v in o)
        decl = f"codata Guard {{ check({sig}): i64 }}\n"
        defs = (f"def below(): Guard {{ new {{ check({', '.join(o)}) => {body} }} }}\n"
                f"def clamp(g: Guard, x: i64, lim: i64): i64 {{ label fail {{ (label done {{ 0 - (g.check({args})) }}) + 1000 }} }}\n")
        out.append({'name': f"covar-args/destructor/{'-'.join(o)}", 'src': decl + prog("println_i64(clamp(below(), a, b)); clamp(below(), b, a)", extra_defs=defs)})
        defs2 = (f"def chk({sig}): i64 {{ {body} }}\n"
                 f"def clamp(x: i64, lim: i64): i64 {{ label fail {{ (label done {{ 0 - (chk({args})) }}) + 1000 }} }}\n")
        out.append({'name': f"covar-args/definition/{'-'.join(o)}", 'src': prog("println_i64(clamp(a, b)); clamp(b, a)", extra_defs=defs2)})
        # an inner variable / label reuses the name of one covariable parameter while the other covariables stay in use
        shadow = {
            'let-ok': "let ok: i64 = x * 2; if ok == 10 { goto err (ok + 1) } else { if ok < lim { ok + 3 } else { goto err (lim) } }",
            'let-err': "let err: i64 = x * 2; if err == 10 { goto ok (err + 1) } else { err + 3 }",
            'label-err': "label err { if x < lim { goto ok (x) } else { if x == lim { goto err (7) } else { x + 1 } } }",
            'label-ok': "(label ok { if x < lim { goto ok (x) } else { goto err (lim) } }) + 5",
        }
        for sk, sbody in shadow.items():
            defs3 = (f"def chk({sig}): i64 {{ {sbody} }}\n"
                     f"def clamp(x: i64, lim: i64): i64 {{ label fail {{ (label done {{ 0 - (chk({args})) }}) + 1000 }} }}\n")
            out.append({'name': f"covar-args/shadowed/{sk}/{'-'.join(o)}", 'src': prog("println_i64(clamp(a, b)); clamp(b, a)", extra_defs=defs3)})
            defs4 = (f"def below(): Guard {{ new {{ check({', '.join(o)}) => {sbody} }} }}\n"
                     f"def clamp(g: Guard, x: i64, lim: i64): i64 {{ label fail {{ (label done {{ 0 - (g.check({args})) }}) + 1000 }} }}\n")
            out.append({'name': f"covar-args/shadowed-method/{sk}/{'-'.join(o)}", 'src': decl + prog("println_i64(clamp(below(), a, b)); clamp(below(), b, a)", extra_defs=defs4)})
    return out


def conditional_operand_effects():
    """effects (print, goto, exit) in BOTH operands of a conditional, for all six comparison sorts in the two-operand form
    and in the compare-with-zero form: operands are evaluated left to right (they are not call / constructor /
    destructor / operator arguments, so these programs are inside the effect-sequenced fragment of C01 / C02)"""
    out = []
    eff = {
        'print': "(print_i64({e}); {e})",
        'goto': "(if {e} == 4 {{ goto k ({e}) }} else {{ (print_i64({e}); {e} + 1) }})",
        'exit': "(if {e} == 3 {{ exit 9 }} else {{ (println_i64({e}); {e}) }})",
    }
    for sk, sort in (('eq', '=='), ('ne', '!='), ('lt', '<'), ('le', '<='), ('gt', '>'), ('ge', '>=')):
        for ek, et in eff.items():
            x, y = et.format(e="a"), et.format(e="b")
            out.append({'name': f"if-effects/{sk}/{ek}/two", 'src': prog(f"label k {{ if {x} {sort} {y} {{ a - b }} else {{ b - a }} }}")})
            out.append({'name': f"if-effects/{sk}/{ek}/zero", 'src': prog(f"label k {{ if {x} {sort} 0 {{ a + 1 }} else {{ b + 2 }} }}")})
    return out


def goto_in_arguments():
    """a goto directly in argument position where the parameter is evaluated by name (codata) and the label by value, or
    the other way round: the jump must happen exactly when the argument is evaluated / forced"""
    out = []
    later = ("def later(f: Fun[i64, i64], x: i64): i64 { println_i64(x); f.apply[i64, i64](x) }\n"
             "def ignore(f: Fun[i64, i64], x: i64): i64 { println_i64(x); x + 1 }\n"
             "def twice(s: Stream[i64], x: i64): i64 { println_i64(x); (s.head[i64]) + (s.head[i64]) }\n")
    bodies = {
        'call-forced': "label k { later(goto k (a), b) + 1000 }",
        'call-ignored': "label k { ignore(goto k (a), b) + 1000 }",
        'call-stream': "label k { twice(goto k (a - b), b) + 1000 }",
        'ctor-field': "label k { (Cons(a, Nil).case[i64] { Nil => 0, Cons(h, t) => later(goto k (h), b) }) + 1000 }",
        'dtor-arg': "label k { (new { apply(x) => later(goto k (x), b) }.apply[i64, i64](a)) + 1000 }",
        'codata-label-int-arg': "(label k { new { apply(x) => id(goto k (new { apply(y) => y + b })) + 1 } }).apply[i64, i64](a)",
        'codata-label-op-arg': "(label k { new { apply(x) => sub2(x, goto k (new { apply(y) => y - b })) } }).apply[i64, i64](a)",
    }
    # a print sequence whose continuation is data- or codata-typed, used as an argument (the argument's own type decides
    # eager vs by-name evaluation, not the type of the printed value)
    bodies.update({
        'print-data-arg': "sum((println_i64(a); Cons(a, Cons(b, Nil)))) + 1",
        'print-data-ctor-field': "(Tup((print_i64(1); Cons(a, Nil)), b)).case[List[i64], i64] { Tup(l, n) => sum(l) - n }",
        'print-data-dtor-arg': "new { apply(l) => sum(l) + b }.apply[List[i64], i64]((println_i64(5); Cons(a, Nil)))",
        'print-codata-arg-forced': "later((println_i64(7); new { apply(y) => y * b }), a)",
        'print-codata-arg-ignored': "ignore((println_i64(7); new { apply(y) => y * b }), a)",
        'print-codata-arg-twice': "twice((println_i64(7); nats(a)), b)",
        'print-enum-arg': "pick((println_i64(a); E2), a, b, 3)",
    })
    for k, b in bodies.items():
        out.append({'name': f"goto-args/{k}", 'src': prog(b, extra_defs=later)})
    return out


def program_level():
    """shapes that concern the program as a whole or literal operands: main between other definitions of the same arity, an
    uncalled definition, mutual recursion with the callee defined later, print / println of non-variable expressions and of
    literals, exit of a literal and inside a scrutinee, literal operands on either side of every comparison"""
    out = []
    pre = "def first(p: i64, q: i64): i64 { println_i64(p); q - p }\ndef never(p: i64, q: i64): i64 { println_i64(77); p * q }\n"
    post = "def last(p: i64, q: i64): i64 { print_i64(q); p + q }\ndef even(n: i64, acc: i64): i64 { if n == 0 { acc } else { odd(n - 1, acc + 1) } }\ndef odd(n: i64, acc: i64): i64 { if n == 0 { acc + 100 } else { even(n - 1, acc + 2) } }\n"
    bodies = {
        'main-in-the-middle': "first(a, b) + last(b, a)",
        'mutual-recursion-later': "even(3, a) - odd(2, b)",
        'print-forms': "print_i64(a + 1); println_i64(a * 2); print_i64(5); println_i64(0 - 7); print_i64(first(a, b)); println_i64(b); a",
        'exit-literal': "if a == 0 { exit 300 } else { println_i64(a); exit 0 - 1 }",
        'exit-in-scrutinee': "(if a == b { exit a + 1 } else { Cons(a, Nil) }).case[i64] { Nil => 0, Cons(h, t) => h + b }",
        'result-range': "(a * 256) + (b - 300)",
    }
    for k, b in bodies.items():
        out.append({'name': f"program-level/{k}", 'src': DECLS + HELPERS + pre + f"def main(a: i64, b: i64): i64 {{ {b} }}\n" + post})
    for sk, sort in (('eq', '=='), ('ne', '!='), ('lt', '<'), ('le', '<='), ('gt', '>'), ('ge', '>=')):
        out.append({'name': f"program-level/literal-operands/{sk}",
                    'src': prog(f"(if 5 {sort} a {{ 1 }} else {{ 2 }}) + ((if a {sort} 5 {{ 10 }} else {{ 20 }}) + ((if 0 {sort} b {{ 100 }} else {{ 200 }}) + (if 3 {sort} 3 {{ 1000 }} else {{ 2000 }})))")})
    return out


def unit_and_noreturn():
    """(a) effects sequenced through a unit-like type: the scrutinee of a single-clause match without binders has effects
    (print, conditional exit, goto); (b) definitions that never use their return continuation: every path ends in exit or in a
    goto to a covariable parameter, with a call as the operand (the positional statement comes first in the body)"""
    out = []
    defs = ("def show(x: i64): Unit { println_i64(x); U }\n"
            "def check(x: i64): Unit { if x < 0 { exit 3 } else { U } }\n"
            "def dbl(x: i64): i64 { println_i64(x); x * 2 }\n"
            "def finish(x: i64): i64 { exit dbl(x) }\n"
            "def finish2(x: i64, y: i64): i64 { if x == y { exit dbl(x) } else { exit dbl(y) + 1 } }\n"
            "def jump(x: i64, k: cns i64): i64 { goto k (dbl(x) + 1) }\n"
            "def jump2(k: cns i64, x: i64, j: cns i64): i64 { if x == 0 { goto k (dbl(x)) } else { goto j (dbl(x) + 1) } }\n")
    bodies = {
        'unit-call': "show(a).case { U => show(b).case { U => a + b } }",
        'unit-inline': "(println_i64(a); U).case { U => b - a }",
        'unit-exit': "check(a).case { U => show(b).case { U => a - b } }",
        'unit-goto': "label k { (if a == 0 { goto k (7) } else { show(a) }).case { U => b } }",
        'unit-in-let': "let u: Unit = show(a); let w: Unit = check(b); u.case { U => w.case { U => a * b } }",
        'single-clause-binding': "(println_i64(a); Tup(a, b)).case[i64, i64] { Tup(p, q) => q - p }",
        'noreturn-exit': "println_i64(a); finish(b)",
        'noreturn-exit-branches': "finish2(a, b) + 1",
        'noreturn-goto': "(label k { jump(a, k) + 1000 }) - b",
        'noreturn-goto2': "(label k { (label j { jump2(k, a, j) + 1000 }) + 50 }) - b",
    }
    for k, b in bodies.items():
        out.append({'name': f"unit-noreturn/{k}", 'src': prog(b, extra_defs=defs)})
    return out


def polymorphism():
    """one polymorphic declaration instantiated at several types in one program: swapped argument orders, nested
    instantiations, a declaration whose xtor uses its parameters in reverse order, destructor chains, case on a call result"""
    out = []
    decl = ("data Swap[A, B] { Sw(y: B, x: A) }\n"
            "data Opt[A] { None, Some(v: A) }\n")
    defs = ("def mkA(p: i64, q: i64): Pair[i64, List[i64]] { Tup(p, Cons(q, Nil)) }\n"
            "def mkB(p: i64, q: i64): Pair[List[i64], i64] { Tup(Cons(p, Cons(q, Nil)), q) }\n"
            "def useA(e: Pair[i64, List[i64]]): i64 { e.case[i64, List[i64]] { Tup(n, l) => n - sum(l) } }\n"
            "def useB(e: Pair[List[i64], i64]): i64 { e.case[List[i64], i64] { Tup(l, n) => sum(l) * n } }\n"
            "def nest(p: i64, q: i64): List[List[i64]] { Cons(Cons(p, Nil), Cons(Cons(q, Cons(p, Nil)), Nil)) }\n"
            "def sums(ll: List[List[i64]]): i64 { ll.case[List[i64]] { Nil => 0, Cons(l, rest) => sum(l) + (2 * sums(rest)) } }\n"
            "def adder(p: i64): Fun[i64, Fun[i64, i64]] { new { apply(x) => new { apply(y) => (x - y) + p } } }\n"
            "def sw1(p: i64, q: i64): Swap[i64, List[i64]] { Sw(Cons(q, Nil), p) }\n"
            "def sw2(p: i64, q: i64): Swap[List[i64], i64] { Sw(q, Cons(p, Nil)) }\n"
            "def opt(p: i64): Opt[Pair[i64, i64]] { if p == 0 { None } else { Some(Tup(p, p + 1)) } }\n"
            "def optl(p: i64): Opt[List[i64]] { if p < 0 { None } else { Some(Cons(p, Nil)) } }\n")
    bodies = {
        'pair-swapped': "useA(mkA(a, b)) - useB(mkB(a, b))",
        'pair-inline': "(mkA(a, b).case[i64, List[i64]] { Tup(n, l) => n + sum(l) }) * (mkB(b, a).case[List[i64], i64] { Tup(l, n) => n - sum(l) })",
        'nested-list': "sums(nest(a, b))",
        'curried': "((adder(a).apply[i64, Fun[i64, i64]](b)).apply[i64, i64](3)) - ((adder(b).apply[i64, Fun[i64, i64]](1)).apply[i64, i64](a))",
        'reversed-params': "(sw1(a, b).case[i64, List[i64]] { Sw(l, n) => n - sum(l) }) + (sw2(a, b).case[List[i64], i64] { Sw(n, l) => (2 * n) + sum(l) })",
        'opt-two-instances': "(opt(a).case[Pair[i64, i64]] { None => 7, Some(p) => p.case[i64, i64] { Tup(x, y) => x * y } }) - (optl(b).case[List[i64]] { Some(l) => sum(l), None => 9 })",
        'stream-chain': "(((nats(a).tail[i64]).tail[i64]).head[i64]) - ((nats(b).tail[i64]).head[i64])",
    }
    for k, b in bodies.items():
        out.append({'name': f"polymorphism/{k}", 'src': decl + prog(b, extra_defs=defs)})
    return out


def recursive_main():
    """`main` called like any other definition (the checker accepts it): in tail position, under an operator, through a helper,
    from a closure, as a let-bound value and as a constructor argument.  fun2core compiles `main` without a continuation
    parameter (its body ends in `exit`) while every call passes one - open finding, listed by these inputs."""
    bodies = {
        'direct': ("", "if a <= 0 { b } else { println_i64(a); main(a - 1, b + a) }"),
        'non-tail': ("", "if a <= 0 { b } else { 1 + main(a - 1, b) }"),
        'via-helper': ("def helper(x: i64, y: i64): i64 { if x == 0 { y } else { main(x - 1, y + 2) } }\n", "if a <= 0 { b } else { print_i64(a); helper(a, b) }"),
        'in-closure': ("", "if a <= 0 { b } else { (new { apply(x) => main(x - 1, b + 1) }).apply[i64, i64](a) }"),
        'let-bound': ("", "if a <= 0 { b } else { let r: i64 = main(a - 1, b); println_i64(r); r * 2 }"),
        'constructor-argument': ("", "if a <= 0 { b } else { Cons(main(a - 1, b + 3), Nil).case[i64] { Nil => 0, Cons(h, t) => h + 5 } }"),
    }
    return [{'name': f"recursive-main/{k}", 'src': DECLS + HELPERS + d + f"def main(a: i64, b: i64): i64 {{ {b} }}\n"} for k, (d, b) in bodies.items()]


def all_programs(tier='quick'):
    ps = name_reuse(("v", "x0") if tier == 'quick' else ("v", "x0", "a0", "x")) + generated_names() + effects_in_arguments() + cut_shapes() + live_variables()
    return ps + fresh_clash() + lift_order() + positions_and_codata() + clause_orders_and_nested_types() + argument_permutations(tier) + scrutinee_reuse() + nested_labels() + covariable_arguments() + conditional_operand_effects() + goto_in_arguments() + program_level() + unit_and_noreturn() + polymorphism()


def effect_sequenced(tier='quick'):
    """programs inside the fragment where Fun's evaluation order is unambiguous (C01, C02): no effects in call /
    constructor / destructor / operator arguments and no effects under codata-typed bindings"""
    return name_reuse(("v", "x0") if tier == 'quick' else ("v", "x0", "a0", "x")) + generated_names() + cut_shapes() + live_variables() + fresh_clash() + lift_order() + [p for p in positions_and_codata() if not p['name'].startswith('codata-eff')] + clause_orders_and_nested_types() + argument_permutations(tier) + scrutinee_reuse() + nested_labels() + covariable_arguments() + conditional_operand_effects() + program_level() + unit_and_noreturn() + polymorphism()

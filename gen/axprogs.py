"""Small non-linear AxCut programs built directly (E0 `axprog`): each statement kind followed by uses of the
in-scope variables with multiplicities 0, 1, 2 in every order - the inputs that exercise filter_by_set, freshen and
the closure-environment reordering of the lineariser."""
import itertools

TYPES = [
    {"name": "Pair", "xtors": [{"name": "Tup", "args": [{"var": "x", "chi": "ext", "ty": "i64"}, {"var": "y", "chi": "ext", "ty": "i64"}]}]},
    {"name": "Opt", "xtors": [{"name": "No", "args": []}, {"name": "Yes", "args": [{"var": "x", "chi": "ext", "ty": "i64"}]}]},
    {"name": "Cont", "xtors": [{"name": "Ret", "args": [{"var": "r", "chi": "ext", "ty": "i64"}]}]},
    {"name": "Fun2", "xtors": [{"name": "ap", "args": [{"var": "x", "chi": "ext", "ty": "i64"}, {"var": "y", "chi": "ext", "ty": "i64"}]},
                               {"name": "other", "args": []}]},
]


def ext(v):
    return {"var": v, "chi": "ext", "ty": "i64"}


def V(name, i):
    return [name, i]


A, B, C = V("a", 1), V("b", 2), V("c", 3)
POOL = {'a': A, 'b': B, 'c': C}


def uses(vars_, tail):
    """print every variable of vars_ in order, then `tail`"""
    s = tail
    for v in reversed(vars_):
        s = {"k": "print", "newline": True, "var": v, "next": s}
    return s


def exit_with(v):
    return {"k": "exit", "var": v}


def max_id_of(x):
    """the largest identifier id that occurs in the program (the lineariser's fresh ids start right above it): tight, so
    that a fresh id that is not strictly larger collides with a variable of the program"""
    m = 0
    if isinstance(x, dict):
        for v in x.values():
            m = max(m, max_id_of(v))
    elif isinstance(x, list):
        if len(x) == 2 and isinstance(x[0], str) and isinstance(x[1], int):
            return x[1]
        for v in x:
            m = max(m, max_id_of(v))
    return m


def programs():
    out = []
    names = ['a', 'b', 'c']
    combos2 = list(itertools.product(names, repeat=2))
    combos3 = list(itertools.product(names, repeat=3))
    afters = [[], ['a'], ['b', 'a'], ['c', 'c'], ['a', 'b', 'c']]

    def wrap(name, body, extra_defs=None):
        main = {"name": "main", "context": [ext(A), ext(B)], "body": {"k": "literal", "lit": 3, "var": C, "next": body}}
        defs = [main] + (extra_defs or [])
        return {'name': name, 'prog': {"defs": defs, "types": TYPES, "max_id": max_id_of(defs)}}
    # let + switch
    for (u1, u2) in combos2:
        for af in afters:
            p, q, x = V("p", 10), V("q", 11), V("x", 12)
            body = {"k": "let", "var": x, "ty": "Pair", "tag": "Tup", "args": [ext(POOL[u1]), ext(POOL[u2])],
                    "next": {"k": "switch", "var": x, "ty": "Pair",
                             "clauses": [{"xtor": "Tup", "context": [ext(p), ext(q)],
                                          "body": uses([q, p] + [POOL[v] for v in af], exit_with(p))}]}}
            out.append(wrap(f"let-switch/{u1}{u2}/{''.join(af) or '-'}", body))
    # create + invoke (closure captures `cap`, is invoked with two arguments)
    for (u1, u2) in combos2:
        for cap in (['a'], ['b', 'a'], ['c', 'a', 'b'], []):
            for af in ([], ['a'], ['c', 'b']):
                k, px, py = V("k", 20), V("px", 21), V("py", 22)
                cl = [{"xtor": "ap", "context": [ext(px), ext(py)], "body": uses([py, px] + [POOL[v] for v in cap], exit_with(px))},
                      {"xtor": "other", "context": [], "body": uses([POOL[v] for v in cap], exit_with(C))}]
                inv = {"k": "invoke", "var": k, "tag": "ap", "ty": "Fun2", "args": [ext(POOL[u1]), ext(POOL[u2])]}
                body = {"k": "create", "var": k, "ty": "Fun2", "context": None, "clauses": cl, "next": uses([POOL[v] for v in af], inv)}
                out.append(wrap(f"create-invoke/{u1}{u2}/{''.join(cap) or '-'}/{''.join(af) or '-'}", body))
    # two closures capturing the same variable, the first still live
    for cap in (['a'], ['a', 'b'], ['b', 'a', 'c']):
        k1, k2, r1, r2 = V("k1", 30), V("k2", 31), V("r", 32), V("r", 33)
        c1 = [{"xtor": "Ret", "context": [ext(r1)], "body": uses([r1] + [POOL[v] for v in cap], exit_with(r1))}]
        c2 = [{"xtor": "Ret", "context": [ext(r2)], "body": uses([POOL[v] for v in cap] + [r2],
                                                               {"k": "invoke", "var": k1, "tag": "Ret", "ty": "Cont", "args": [ext(r2)]})}]
        body = {"k": "create", "var": k1, "ty": "Cont", "context": None, "clauses": c1,
                "next": {"k": "create", "var": k2, "ty": "Cont", "context": None, "clauses": c2,
                         "next": uses([POOL[cap[0]]], {"k": "invoke", "var": k2, "tag": "Ret", "ty": "Cont", "args": [ext(POOL[cap[-1]])]})}}
        out.append(wrap(f"two-closures/{''.join(cap)}", body))
    # call with repeated / reordered arguments
    f = {"name": "f", "context": [ext(V("x", 40)), ext(V("y", 41)), ext(V("z", 42))],
         "body": uses([V("z", 42), V("x", 40), V("y", 41)], exit_with(V("y", 41)))}
    for (u1, u2, u3) in combos3:
        body = uses([POOL[u2]], {"k": "call", "label": "f", "args": [ext(POOL[u1]), ext(POOL[u2]), ext(POOL[u3])]})
        out.append(wrap(f"call/{u1}{u2}{u3}", body, [f]))
    # if / op / switch on a two-constructor type with clauses using different subsets
    for (u1, u2) in combos2:
        for sort in ('lt', 'eq'):
            d = V("d", 50)
            body = {"k": "op", "fst": POOL[u1], "op": "sub", "snd": POOL[u2], "var": d,
                    "next": {"k": "ifc", "sort": sort, "fst": POOL[u1], "snd": POOL[u2],
                             "thenc": uses([d, POOL[u2]], exit_with(POOL[u1])),
                             "elsec": uses([POOL[u1]], exit_with(d))}}
            out.append(wrap(f"op-if/{u1}{u2}/{sort}", body))
        o, yv = V("o", 60), V("yv", 61)
        body = {"k": "ifc", "sort": "lt", "fst": A, "snd": B,
                "thenc": {"k": "let", "var": o, "ty": "Opt", "tag": "Yes", "args": [ext(POOL[u1])], "next": None},
                "elsec": {"k": "let", "var": o, "ty": "Opt", "tag": "No", "args": [], "next": None}}
        sw = {"k": "switch", "var": o, "ty": "Opt",
              "clauses": [{"xtor": "No", "context": [], "body": uses([POOL[u2]], exit_with(C))},
                          {"xtor": "Yes", "context": [ext(yv)], "body": uses([yv, POOL[u1], POOL[u2]], exit_with(yv))}]}
        body['thenc']['next'] = sw
        body['elsec']['next'] = sw
        out.append(wrap(f"opt-switch/{u1}{u2}", body))
    # the scrutinee is used again inside its own clause (second switch on it); the switch is the FIRST statement of a
    # definition, so parameters that are dead in all clauses are still in the environment (they die at the switch): all
    # subsets of {a, b, c} live in the clause, scrutinee last in the environment or not, and an object-typed sibling of
    # the scrutinee's type that is absent, dead or live
    PAIR = lambda v: {"var": v, "chi": "prd", "ty": "Pair"}
    for live in itertools.chain.from_iterable(itertools.combinations(names, r) for r in range(4)):
        for last in (True, False):
            for sibling in ('none', 'dead', 'live'):
                x, y = V("x", 70), V("y", 71)
                ga, gb, gc, gx, gy = V("a", 80), V("b", 81), V("c", 82), V("x", 83), V("y", 84)
                gpool = {'a': ga, 'b': gb, 'c': gc}
                p, q, p2, q2, p3, q3 = V("p", 73), V("q", 74), V("p", 75), V("q", 76), V("p", 77), V("q", 78)
                tail = exit_with(p)
                if sibling == 'live':
                    tail = {"k": "switch", "var": gy, "ty": "Pair", "clauses": [{"xtor": "Tup", "context": [ext(p3), ext(q3)], "body": uses([q3], exit_with(p))}]}
                inner = {"k": "switch", "var": gx, "ty": "Pair",
                         "clauses": [{"xtor": "Tup", "context": [ext(p2), ext(q2)], "body": uses([q2, p2] + [gpool[v] for v in live], tail)}]}
                sw = {"k": "switch", "var": gx, "ty": "Pair",
                      "clauses": [{"xtor": "Tup", "context": [ext(p), ext(q)], "body": uses([q], inner)}]}
                gctx = [ext(ga), ext(gb)] + ([PAIR(gy)] if sibling != 'none' else [])
                args = [ext(A), ext(B)] + ([PAIR(y)] if sibling != 'none' else [])
                if last:
                    gctx += [ext(gc), PAIR(gx)]
                    args += [ext(C), PAIR(x)]
                else:
                    gctx += [PAIR(gx), ext(gc)]
                    args += [PAIR(x), ext(C)]
                g = {"name": "g", "context": gctx, "body": sw}
                call = {"k": "call", "label": "g", "args": args}
                mk_x = {"k": "let", "var": x, "ty": "Pair", "tag": "Tup", "args": [ext(A), ext(B)], "next": call}
                body = mk_x if sibling == 'none' else {"k": "let", "var": y, "ty": "Pair", "tag": "Tup", "args": [ext(B), ext(C)], "next": mk_x}
                out.append(wrap(f"switch-reuse/{''.join(live) or '-'}/{'last' if last else 'notlast'}/{sibling}", body, [g]))
    # closures: empty environment while variables are live; a closure captured by a second one; clauses using different
    # subsets of the captured variables; invoke without arguments; nullary constructor with live variables; a conditional
    # whose branches need different environments (one of them a direct call); a definition that ignores its parameters
    CONT = lambda v: {"var": v, "chi": "cns", "ty": "Cont"}
    FUN2 = lambda v: {"var": v, "chi": "cns", "ty": "Fun2"}
    for af in ([], ['a'], ['c', 'b'], ['a', 'b', 'c']):
        tagn = ''.join(af) or '-'
        k, px, py = V("k", 20), V("px", 21), V("py", 22)
        cl = [{"xtor": "ap", "context": [ext(px), ext(py)], "body": uses([py], exit_with(px))}, {"xtor": "other", "context": [], "body": {"k": "literal", "lit": 5, "var": V("l", 23), "next": exit_with(V("l", 23))}}]
        body = {"k": "create", "var": k, "ty": "Fun2", "context": None, "clauses": cl,
                "next": uses([POOL[v] for v in af], {"k": "invoke", "var": k, "tag": "ap", "ty": "Fun2", "args": [ext(A), ext(B)]})}
        out.append(wrap(f"closure-empty-env/{tagn}", body))
        body = {"k": "create", "var": k, "ty": "Fun2", "context": None,
                "clauses": [{"xtor": "ap", "context": [ext(px), ext(py)], "body": uses([py, A, B], exit_with(px))},
                            {"xtor": "other", "context": [], "body": uses([C], exit_with(C))}],
                "next": uses([POOL[v] for v in af], {"k": "invoke", "var": k, "tag": "other", "ty": "Fun2", "args": []})}
        out.append(wrap(f"closure-subsets-invoke0/{tagn}", body))
        k1, k2, r1, r2 = V("k1", 30), V("k2", 31), V("r", 32), V("r", 33)
        c1 = [{"xtor": "Ret", "context": [ext(r1)], "body": uses([r1, A], exit_with(r1))}]
        c2 = [{"xtor": "Ret", "context": [ext(r2)], "body": uses([B, r2], {"k": "invoke", "var": k1, "tag": "Ret", "ty": "Cont", "args": [ext(r2)]})}]
        body = {"k": "create", "var": k1, "ty": "Cont", "context": None, "clauses": c1,
                "next": {"k": "create", "var": k2, "ty": "Cont", "context": None, "clauses": c2,
                         "next": uses([POOL[v] for v in af], {"k": "invoke", "var": k2, "tag": "Ret", "ty": "Cont", "args": [ext(C)]})}}
        out.append(wrap(f"closure-captures-closure/{tagn}", body))
        o, yv = V("o", 60), V("yv", 61)
        body = {"k": "let", "var": o, "ty": "Opt", "tag": "No", "args": [],
                "next": uses([POOL[v] for v in af], {"k": "switch", "var": o, "ty": "Opt",
                                                     "clauses": [{"xtor": "No", "context": [], "body": uses([B], exit_with(A))},
                                                                 {"xtor": "Yes", "context": [ext(yv)], "body": uses([yv, C], exit_with(yv))}]})}
        out.append(wrap(f"let-nullary/{tagn}", body))
        f3 = {"name": "f3", "context": [ext(V("x", 40)), ext(V("y", 41)), ext(V("z", 42))], "body": uses([V("y", 41)], exit_with(V("x", 40)))}
        body = {"k": "ifc", "sort": "lt", "fst": A, "snd": B,
                "thenc": {"k": "call", "label": "f3", "args": [ext(C), ext(A), ext(B)]},
                "elsec": uses([POOL[v] for v in af], exit_with(C))}
        out.append(wrap(f"ifc-branch-call/{tagn}", body, [f3]))
        g0 = {"name": "g0", "context": [ext(V("x", 43)), ext(V("y", 44)), ext(V("z", 45))],
              "body": {"k": "literal", "lit": 9, "var": V("m", 46), "next": uses([V("m", 46)] + ([V("y", 44)] if 'a' in af else []), exit_with(V("m", 46)))}}
        out.append(wrap(f"unused-params/{tagn}", {"k": "call", "label": "g0", "args": [ext(A), ext(B), ext(C)]}, [g0]))
    # the variable with the LARGEST id of the whole program is the one that gets duplicated by the first renaming
    h = {"name": "h", "context": [ext(V("x", 5)), ext(V("y", 6)), ext(V("z", 7))],
         "body": uses([V("z", 7), V("x", 5), V("y", 6)], exit_with(V("y", 6)))}
    for af in ([], ['m'], ['a', 'm']):
        m = V("m", 90)
        pool2 = dict(POOL, m=m)
        body = {"k": "literal", "lit": 7, "var": m, "next": {"k": "call", "label": "h", "args": [ext(m), ext(m), ext(A)]}}
        out.append(wrap(f"dup-max/call/{''.join(af) or '-'}", body, [h]))
        x = V("x", 91)
        p, q = V("p", 8), V("q", 9)
        body = {"k": "literal", "lit": 7, "var": m,
                "next": {"k": "let", "var": x, "ty": "Pair", "tag": "Tup", "args": [ext(m), ext(m)],
                         "next": {"k": "switch", "var": x, "ty": "Pair",
                                  "clauses": [{"xtor": "Tup", "context": [ext(p), ext(q)], "body": uses([q, p] + [pool2[v] for v in af], exit_with(p))}]}}}
        out.append(wrap(f"dup-max/let/{''.join(af) or '-'}", body))
        k, px, py = V("k", 10), V("px", 11), V("py", 12)
        cl = [{"xtor": "ap", "context": [ext(px), ext(py)], "body": uses([py, px], exit_with(px))},
              {"xtor": "other", "context": [], "body": exit_with(C)}]
        body = {"k": "create", "var": k, "ty": "Fun2", "context": None, "clauses": cl,
                "next": {"k": "literal", "lit": 7, "var": m,
                         "next": uses([pool2[v] for v in af], {"k": "invoke", "var": k, "tag": "ap", "ty": "Fun2", "args": [ext(m), ext(m)]})}}
        out.append(wrap(f"dup-max/invoke/{''.join(af) or '-'}", body))
    return out

"""Small non-linear AxCut programs built directly (E0 `axprog`): each statement kind followed by uses of the
in-scope variables with multiplicities 0, 1, 2 in every order - the inputs that exercise filter_by_set, freshen and
the closure-environment reordering of the lineariser."""
import itertools

TYPES = [
    {"name": "Pair", "xtors": [{"name": "Tup", "args": [{"var": "x", "chi": "ext", "ty": "i64"}, {"var": "y", "chi": "ext", "ty": "i64"}]}]},
    {"name": "Opt", "xtors": [{"name": "No", "args": []}, {"name": "Yes", "args": [{"var": "x", "chi": "ext", "ty": "i64"}]}]},
    {"name": "Cont", "xtors": [{"name": "Ret", "args": [{"var": "r", "chi": "ext", "ty": "i64"}]}]},
    {"name": "Fun2", "xtors": [{"name": "ap", "args": [{"var": "x", "chi": "ext", "ty": "i64"}, {"var": "y", "chi": "ext", "ty": "i64"}]},
                               {"name": "other", "args": []}]},
]


def ext(v):
    return {"var": v, "chi": "ext", "ty": "i64"}


def V(name, i):
    return [name, i]


A, B, C = V("a", 1), V("b", 2), V("c", 3)
POOL = {'a': A, 'b': B, 'c': C}


def uses(vars_, tail):
    """print every variable of vars_ in order, then `tail`"""
    s = tail
    for v in reversed(vars_):
        s = {"k": "print", "newline": True, "var": v, "next": s}
    return s


def exit_with(v):
    return {"k": "exit", "var": v}


def programs():
    out = []
    names = ['a', 'b', 'c']
    combos2 = list(itertools.product(names, repeat=2))
    combos3 = list(itertools.product(names, repeat=3))
    afters = [[], ['a'], ['b', 'a'], ['c', 'c'], ['a', 'b', 'c']]

    def wrap(name, body, extra_defs=None):
        main = {"name": "main", "context": [ext(A), ext(B)], "body": {"k": "literal", "lit": 3, "var": C, "next": body}}
        return {'name': name, 'prog': {"defs": [main] + (extra_defs or []), "types": TYPES, "max_id": 100}}
    # let + switch
    for (u1, u2) in combos2:
        for af in afters:
            p, q, x = V("p", 10), V("q", 11), V("x", 12)
            body = {"k": "let", "var": x, "ty": "Pair", "tag": "Tup", "args": [ext(POOL[u1]), ext(POOL[u2])],
                    "next": {"k": "switch", "var": x, "ty": "Pair",
                             "clauses": [{"xtor": "Tup", "context": [ext(p), ext(q)],
                                          "body": uses([q, p] + [POOL[v] for v in af], exit_with(p))}]}}
            out.append(wrap(f"let-switch/{u1}{u2}/{''.join(af) or '-'}", body))
    # create + invoke (closure captures `cap`, is invoked with two arguments)
    for (u1, u2) in combos2:
        for cap in (['a'], ['b', 'a'], ['c', 'a', 'b'], []):
            for af in ([], ['a'], ['c', 'b']):
                k, px, py = V("k", 20), V("px", 21), V("py", 22)
                cl = [{"xtor": "ap", "context": [ext(px), ext(py)], "body": uses([py, px] + [POOL[v] for v in cap], exit_with(px))},
                      {"xtor": "other", "context": [], "body": uses([POOL[v] for v in cap], exit_with(C))}]
                inv = {"k": "invoke", "var": k, "tag": "ap", "ty": "Fun2", "args": [ext(POOL[u1]), ext(POOL[u2])]}
                body = {"k": "create", "var": k, "ty": "Fun2", "context": None, "clauses": cl, "next": uses([POOL[v] for v in af], inv)}
                out.append(wrap(f"create-invoke/{u1}{u2}/{''.join(cap) or '-'}/{''.join(af) or '-'}", body))
    # two closures capturing the same variable, the first still live
    for cap in (['a'], ['a', 'b'], ['b', 'a', 'c']):
        k1, k2, r1, r2 = V("k1", 30), V("k2", 31), V("r", 32), V("r", 33)
        c1 = [{"xtor": "Ret", "context": [ext(r1)], "body": uses([r1] + [POOL[v] for v in cap], exit_with(r1))}]
        c2 = [{"xtor": "Ret", "context": [ext(r2)], "body": uses([POOL[v] for v in cap] + [r2],
                                                               {"k": "invoke", "var": k1, "tag": "Ret", "ty": "Cont", "args": [ext(r2)]})}]
        body = {"k": "create", "var": k1, "ty": "Cont", "context": None, "clauses": c1,
                "next": {"k": "create", "var": k2, "ty": "Cont", "context": None, "clauses": c2,
                         "next": uses([POOL[cap[0]]], {"k": "invoke", "var": k2, "tag": "Ret", "ty": "Cont", "args": [ext(POOL[cap[-1]])]})}}
        out.append(wrap(f"two-closures/{''.join(cap)}", body))
    # call with repeated / reordered arguments
    f = {"name": "f", "context": [ext(V("x", 40)), ext(V("y", 41)), ext(V("z", 42))],
         "body": uses([V("z", 42), V("x", 40), V("y", 41)], exit_with(V("y", 41)))}
    for (u1, u2, u3) in combos3:
        body = uses([POOL[u2]], {"k": "call", "label": "f", "args": [ext(POOL[u1]), ext(POOL[u2]), ext(POOL[u3])]})
        out.append(wrap(f"call/{u1}{u2}{u3}", body, [f]))
    # if / op / switch on a two-constructor type with clauses using different subsets
    for (u1, u2) in combos2:
        for sort in ('lt', 'eq'):
            d = V("d", 50)
            body = {"k": "op", "fst": POOL[u1], "op": "sub", "snd": POOL[u2], "var": d,
                    "next": {"k": "ifc", "sort": sort, "fst": POOL[u1], "snd": POOL[u2],
                             "thenc": uses([d, POOL[u2]], exit_with(POOL[u1])),
                             "elsec": uses([POOL[u1]], exit_with(d))}}
            out.append(wrap(f"op-if/{u1}{u2}/{sort}", body))
        o, yv = V("o", 60), V("yv", 61)
        body = {"k": "ifc", "sort": "lt", "fst": A, "snd": B,
                "thenc": {"k": "let", "var": o, "ty": "Opt", "tag": "Yes", "args": [ext(POOL[u1])], "next": None},
                "elsec": {"k": "let", "var": o, "ty": "Opt", "tag": "No", "args": [], "next": None}}
        sw = {"k": "switch", "var": o, "ty": "Opt",
              "clauses": [{"xtor": "No", "context": [], "body": uses([POOL[u2]], exit_with(C))},
                          {"xtor": "Yes", "context": [ext(yv)], "body": uses([yv, POOL[u1], POOL[u2]], exit_with(yv))}]}
        body['thenc']['next'] = sw
        body['elsec']['next'] = sw
        out.append(wrap(f"opt-switch/{u1}{u2}", body))
    return out

"""Bounded-exhaustive shape enumerators for the per-statement obligations.

A shape is the finite, syntactic part of an input that determines which code the back end emits.
`boundary(isa)` = index of the first spilled variable (x86-64: 6, AArch64: 13, RV64: none within 14)."""
import itertools

KINDS = ['ext', 'prd', 'cns']
BOUNDARY = {'x86_64': 6, 'aarch64': 13, 'rv64': None}
MAXVARS = {'x86_64': 40, 'aarch64': 40, 'rv64': 14}
DEEP = {'x86_64': 30, 'aarch64': 36, 'rv64': None}

LITERALS = [0, 1, -1, 2, 255, 256, 32767, 32768, -32768, -32769, 65535, 65536, -65536, -65537,
            (1 << 31) - 1, 1 << 31, -(1 << 31), -(1 << 31) - 1, (1 << 32) - 1, 1 << 32, -(1 << 32),
            (1 << 47), -(1 << 47), (1 << 63) - 1, -(1 << 63), 0x0000FFFF0000FFFF, -0x0000FFFF00010000,
            0x7FFF0000FFFF0000, 0x1234_5678_9ABC_DEF0, -0x1234_5678_9ABC_DEF0, 0xFFFF, 0xFFFF0000]


def windows(isa, k, extra=1, tier='quick'):
    """window starts p (number of untouched variables before the k touched ones): at 0, around the
    register/spill boundary, and (thorough) at one deep-spill position"""
    b = BOUNDARY[isa]
    mx = MAXVARS[isa]
    if b is not None:
        if tier == 'quick':
            out = {0, max(0, b - k), max(0, b - 1), b}
        else:
            out = {0, 1} | set(range(max(0, b - k - 1), b + 2)) | {DEEP[isa]}
    else:
        out = {0, 2, max(0, mx - k - extra)}
        if tier != 'quick':
            out |= {1, max(0, mx - k - extra - 1)}
    return sorted(p for p in out if p + k + extra <= mx)


def interesting_positions(isa, n):
    """positions of operands worth distinguishing inside a context of n variables"""
    b = BOUNDARY[isa]
    s = {0, 1, n - 2, n - 1}
    if b is not None:
        s |= {b - 1, b, b + 1}
    return sorted(p for p in s if 0 <= p < n)


def context_sizes(isa, tier):
    b = BOUNDARY[isa]
    if b is None:
        return [1, 2, 3, 7, 12, 13]
    s = [1, 2, 3, b - 1, b, b + 1, b + 2]
    if tier == 'thorough':
        s += [b + 3, DEEP[isa]]
    return sorted(set(x for x in s if x >= 1))


def op_shapes(isa, tier):
    out = []
    for n in context_sizes(isa, tier):
        P = interesting_positions(isa, n)
        for a in P:
            for b in P:
                for op in ('sum', 'sub', 'prod', 'div', 'rem'):
                    out.append({'kind': 'op', 'n': n, 'a': a, 'b': b, 'op': op})
    return out


def ifc_shapes(isa, tier):
    out = []
    for n in context_sizes(isa, tier):
        P = interesting_positions(isa, n)
        for sort in ('eq', 'ne', 'lt', 'le', 'gt', 'ge'):
            for a in P:
                out.append({'kind': 'ifc', 'n': n, 'a': a, 'b': None, 'sort': sort})
                for b in P:
                    out.append({'kind': 'ifc', 'n': n, 'a': a, 'b': b, 'sort': sort})
    return out


def lit_shapes(isa, tier):
    out = []
    b = BOUNDARY[isa]
    ns = [0, 1] + ([b - 1, b, b + 1] if b is not None else [12, 13])
    for n in ns:
        for lit in LITERALS:
            out.append({'kind': 'lit', 'n': n, 'lit': lit})
    return out


def misc_shapes(isa, tier):
    out = []
    for n in context_sizes(isa, tier):
        for a in sorted({0, n - 1}):
            out.append({'kind': 'exit', 'n': n, 'a': a})
        out.append({'kind': 'call', 'n': n})
        for nd in (1, 2, 3):
            for pos in sorted({0, nd - 1}):
                out.append({'kind': 'invoke', 'n': n, 'ndtors': nd, 'tagpos': pos})
    out.append({'kind': 'call', 'n': 0})
    return out


def print_shapes(isa, tier, ns=None):
    out = []
    if isa == 'rv64':
        return out
    for n in (ns or context_sizes(isa, tier)):
        for a in sorted({0, n - 1}):
            for nl in (False, True):
                out.append({'kind': 'print', 'n': n, 'a': a, 'newline': nl})
    return out


def kind_lists(arity, tier, full_upto=2):
    if tier == 'thorough' and arity <= 3:
        return [list(x) for x in itertools.product(KINDS, repeat=arity)]
    if arity <= full_upto:
        # quick tier: 'cns' and 'prd' select the same code paths (the generators only test chi == Ext)
        return [list(x) for x in itertools.product(['ext', 'prd'], repeat=arity)]
    # a covering family: all-ext, all-prd, alternating, each kind once in first/last position
    fam = set()
    fam.add(tuple(['ext'] * arity))
    fam.add(tuple(['prd'] * arity))
    fam.add(tuple(KINDS[i % 3] for i in range(arity)))
    fam.add(tuple(KINDS[(i + 1) % 3] for i in range(arity)))
    fam.add(tuple(['prd'] + ['ext'] * (arity - 1)))
    fam.add(tuple(['ext'] * (arity - 1) + ['cns']))
    return [list(x) for x in sorted(fam)]


def let_shapes(isa, tier, arities=None):
    out = []
    arities = arities if arities is not None else ([0, 1, 2, 3] if tier == 'quick' else [0, 1, 2, 3])
    for ar in arities:
        for p in windows(isa, ar, tier=tier):
            for ks in kind_lists(ar, tier):
                for (nx, pos) in ((1, 0), (3, 2)):
                    out.append({'kind': 'let', 'p': p, 'args': ks, 'nxtors': nx, 'tagpos': pos})
    for sh in multiblock(isa, tier):
        out.append({'kind': 'let', 'p': sh[0], 'args': sh[1], 'nxtors': 1, 'tagpos': 0})
    return out


def multiblock(isa, tier):
    """objects with more than three fields (2..4 linked blocks): (window start, kinds)"""
    b = BOUNDARY[isa]
    ars = [4, 5, 7] if tier == 'quick' else [4, 5, 6, 7, 8]
    out = []
    for ar in ars:
        if b is not None:
            ps = (sorted({0, max(0, b - 2), b}) if ar < 7 else [0, max(0, b - 2)]) if tier == 'quick' else sorted({0, b - ar, b - 2, b - 1, b, DEEP[isa]} - {-1, -2, -3})
        else:
            ps = [0, MAXVARS[isa] - ar - 1]
        ps = [p for p in ps if p >= 0 and p + ar + 1 <= MAXVARS[isa]]
        fam = [[('ext' if i % 2 == 0 else 'prd') for i in range(ar)], ['prd'] + ['ext'] * (ar - 1)]
        if tier != 'quick':
            fam += [['ext'] * ar, ['prd'] * ar]
        for p in ps:
            for ks in fam:
                out.append((p, ks))
    return out


def switch_shapes(isa, tier, arities=None):
    out = []
    arities = arities if arities is not None else [0, 1, 2, 3]
    for ar in arities:
        for p in windows(isa, max(ar, 1), extra=0, tier=tier):
            for ks in kind_lists(ar, tier):
                out.append({'kind': 'switch', 'p': p, 'clauses': [ks]})
                out.append({'kind': 'switch', 'p': p, 'clauses': [[], ks]})
            if ar == 2:
                out.append({'kind': 'switch', 'p': p, 'clauses': [['ext'], [], ['prd', 'ext']]})
    if arities == [0, 1, 2, 3]:
        for p, ks in multiblock(isa, tier):
            out.append({'kind': 'switch', 'p': p, 'clauses': [ks]})
    return out


def create_shapes(isa, tier, arities=None):
    out = []
    arities = arities if arities is not None else [0, 1, 2, 3]
    for ar in arities:
        for p in windows(isa, ar, tier=tier):
            for ks in kind_lists(ar, tier, full_upto=1):
                out.append({'kind': 'create', 'p': p, 'env': ks, 'methods': [['ext']]})
                out.append({'kind': 'create', 'p': p, 'env': ks, 'methods': [['ext', 'cns'], []]})
    if arities == [0, 1, 2, 3]:
        for p, ks in multiblock(isa, tier)[::2]:
            out.append({'kind': 'create', 'p': p, 'env': ks, 'methods': [['ext']]})
    return out


def all_maps(m, n):
    return [list(x) for x in itertools.product(range(n), repeat=m)]


def substitute_shapes(isa, tier, max_m=3, max_n=3):
    """all maps from m new to n old variables, all kind assignments of the old ones, windows across the boundary"""
    out = []
    b = BOUNDARY[isa]
    for n in range(0, max_n + 1):
        for m in range(0, max_m + 1):
            if n == 0 and m > 0:
                continue
            k = max(m, n)
            if b is None:
                ps = [0, MAXVARS[isa] - k] if tier == 'quick' else [0, 2, MAXVARS[isa] - k]
            else:
                ps = sorted({0, b - 1}) if tier == 'quick' else sorted(set([0] + list(range(max(0, b - k), b + 1)) + [DEEP[isa]]))
            ps = sorted(set(p for p in ps if 0 <= p and p + k <= MAXVARS[isa]))
            for old in itertools.product(KINDS if tier == 'thorough' else ['ext', 'prd'], repeat=n):
                if tier != 'thorough':
                    # quick tier: two kinds per position, but the object kind alternates between producer and consumer
                    # (closures and continuations are `cns`), so a dependence on the chirality of a counted variable
                    # shows for dropped, moved and duplicated variables alike (round-14 seed C11f)
                    old = tuple(('cns' if (k_ == 'prd' and i_ % 2 == 1) else k_) for i_, k_ in enumerate(old))
                for mp in (all_maps(m, n) if n > 0 else [[]]):
                    for p in ps:
                        out.append({'kind': 'substitute', 'p': p, 'old': list(old), 'map': mp})
    return out


def method_shapes(isa, tier, arities=None):
    """method prologues of closures: a = number of destructor arguments (window start), env = captured kinds"""
    out = []
    arities = arities if arities is not None else [0, 1, 2, 3]
    for ar in arities:
        for a in windows(isa, max(ar, 1), extra=0, tier=tier):
            args = (['ext', 'prd', 'cns'] + ['ext'] * a)[:a]
            for ks in kind_lists(ar, tier, full_upto=2):
                out.append({'kind': 'method', 'env': ks, 'methods': [args], 'i': 0})
                out.append({'kind': 'method', 'env': ks, 'methods': [[], args, ['ext']], 'i': 1})
    if arities == [0, 1, 2, 3]:
        for p, ks in multiblock(isa, tier)[1::2]:
            args = (['ext', 'prd', 'cns'] + ['ext'] * p)[:p]
            out.append({'kind': 'method', 'env': ks, 'methods': [args], 'i': 0})
    return out

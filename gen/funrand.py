"""Typed generator of small Fun programs over a fixed signature, biased towards name reuse (a pool of six binder
names), non-first parameters / pattern variables, repeated arguments, codata bindings, self-application, labels.
Deterministic per seed.  mode 'sequenced': no effect in call / constructor / destructor / operator arguments and none
under codata-typed bindings (the fragment of C01 / C02); mode 'all': effects anywhere (C03-C05)."""
import random
from funprogs import DECLS, HELPERS

EXTRA_DECLS = "codata U { app(u: U): i64 }\n"
EXT_DECLS = ("codata Guard { check(err: cns i64, x: i64, ok: cns i64): i64 }\n"
             "codata Guard2 { test(x: i64, ok: cns i64, lim: i64, err: cns i64): i64, peek: i64 }\n")
NAMES = ['x', 'y', 'v', 'x0', 'a0', 'p']
TYS = {'I': 'i64', 'L': 'List[i64]', 'P': 'Pair[i64, i64]', 'E': 'Enum3', 'F': 'Fun[i64, i64]', 'S': 'Stream[i64]', 'U': 'U', 'O': 'Obj3'}
CODATA = {'F', 'S', 'U', 'O'}


class G:
    def __init__(self, seed, mode, unique=False, ext=False, pure_codata=False):
        self.pure_codata = pure_codata   # no effect inside a codata-typed term (when a by-name receiver's effects happen
                                         # relative to the eager arguments of its destructor is not fixed by the source semantics)
        self.ext = ext            # extended grammar (only generated with distinct binders): destructors with two covariable
                                  # parameters, labels nested in tail position, a scrutinee used again inside its own clause
        self.r = random.Random(seed)
        self.mode = mode
        self.defs = []
        self.nfun = 0
        self.unique = unique      # twin mode: the same program with every binder renamed apart
        self.cnt = 0

    def name(self):
        n = self.r.choice(NAMES)
        if self.unique:
            self.cnt += 1
            return f"{n}u{self.cnt}"
        return n

    def vars_of(self, env, ty, covar=False):
        seen, out = set(), []
        for n, t, k in reversed(env):       # innermost binding of a name wins
            if n in seen:
                continue
            seen.add(n)
            if t == ty and k == ('cns' if covar else 'prd'):
                out.append(n)
        return out

    def lit(self):
        return str(self.r.choice([0, 1, 2, 3, 5, 7, 10, 255, 65536, 2147483648]))

    def gen(self, ty, env, d, eff):
        """a term of type ty (fully parenthesised where the grammar needs it)"""
        r = self.r
        if self.pure_codata and ty in CODATA:
            eff = False
        vs = self.vars_of(env, ty)
        if d <= 0:
            if vs and r.random() < 0.7:
                return r.choice(vs)
            return self.leaf(ty, env)
        choices = ['var'] * 2 + ['leaf', 'if', 'let', 'let']
        if ty == 'I':
            choices += ['op', 'op', 'call', 'caseL', 'caseP', 'caseE', 'apply', 'head', 'obj', 'selfapp', 'label', 'fundef']
            if self.ext:
                choices += ['guard', 'guard', 'nestlabel', 'rescrut', 'rescrut']
            if eff:
                choices += ['print', 'print', 'exit']
                if self.vars_of(env, 'I', covar=True):
                    choices += ['goto', 'goto']
        else:
            choices += ['build', 'build', 'label']
            if eff and self.vars_of(env, ty, covar=True):
                choices += ['goto']
            if eff and ty in CODATA:
                choices += ['effcodata']
        c = r.choice(choices)
        pure = eff and self.mode == 'all'     # effects allowed inside argument positions only in mode 'all'
        if c == 'var':
            return r.choice(vs) if vs else self.leaf(ty, env)
        if c == 'leaf':
            return self.leaf(ty, env)
        if c == 'if':
            # operands of a conditional are evaluated left to right; the extended grammar puts effects there in every mode
            opeff = eff if self.ext else pure
            a, b = self.gen('I', env, d - 1, opeff), self.gen('I', env, d - 1, opeff)
            cmp_ = r.choice(['==', '!=', '<', '<=', '>', '>='])
            if r.random() < 0.3:
                cond = f"{a} {cmp_} 0"
            else:
                cond = f"{a} {cmp_} {b}"
            return f"(if {cond} {{ {self.gen(ty, env, d - 1, eff)} }} else {{ {self.gen(ty, env, d - 1, eff)} }})"
        if c == 'let':
            t2 = r.choice(['I', 'I', 'I', 'L', 'P', 'E', 'F', 'S', 'U', 'O'])
            n = self.name()
            bound_eff = eff and (t2 not in CODATA or self.mode == 'all')
            bt = self.gen(t2, env, d - 1, bound_eff)
            return f"(let {n}: {TYS[t2]} = {bt}; {self.gen(ty, env + [(n, t2, 'prd')], d - 1, eff)})"
        if c == 'label':
            k = r.choice(['k', 'k2', 'a0', 'x'])
            if self.unique:
                self.cnt += 1
                k = f"{k}u{self.cnt}"
            return f"(label {k} {{ {self.gen(ty, env + [(k, ty, 'cns')], d - 1, eff)} }})"
        if c == 'goto':
            k = r.choice(self.vars_of(env, ty, covar=True))
            return f"(goto {k} ({self.gen(ty, env, d - 1, pure)}))"
        if c == 'op':
            op = r.choice(['+', '-', '*', '+', '-'])
            return f"({self.gen('I', env, d - 1, pure)} {op} {self.gen('I', env, d - 1, pure)})"
        if c == 'call':
            f = r.choice(['id', 'sub2', 'add3', 'sum', 'pick'])
            if f == 'id':
                return f"id({self.gen('I', env, d - 1, pure)})"
            if f == 'sub2':
                a = self.gen('I', env, d - 1, pure)
                b = a if r.random() < 0.25 else self.gen('I', env, d - 1, pure)
                return f"sub2({a}, {b})"
            if f == 'add3':
                return f"add3({self.gen('I', env, d - 1, pure)}, {self.gen('I', env, d - 1, pure)}, {self.gen('I', env, d - 1, pure)})"
            if f == 'sum':
                return f"sum({self.gen('L', env, d - 1, pure)})"
            return f"pick({self.gen('E', env, d - 1, pure)}, {self.gen('I', env, d - 1, pure)}, {self.gen('I', env, d - 1, pure)}, {self.gen('I', env, d - 1, pure)})"
        if c == 'caseL':
            h, t = self.name(), self.name()
            if h == t:
                t = t + 's'
            e2 = env + [(h, 'I', 'prd'), (t, 'L', 'prd')]
            cl = [f"Nil => {self.gen('I', env, d - 1, eff)}", f"Cons({h}, {t}) => {self.gen('I', e2, d - 1, eff)}"]
            if r.random() < 0.4:
                cl.reverse()          # clauses need not be written in declaration order
            return f"({self.gen('L', env, d - 1, pure)}.case[i64] {{ {cl[0]}, {cl[1]} }})"
        if c == 'caseP':
            h, t = self.name(), self.name()
            if h == t:
                t = t + 's'
            e2 = env + [(h, 'I', 'prd'), (t, 'I', 'prd')]
            return f"({self.gen('P', env, d - 1, pure)}.case[i64, i64] {{ Tup({h}, {t}) => {self.gen('I', e2, d - 1, eff)} }})"
        if c == 'caseE':
            cl = [f"E{i} => {self.gen('I', env, d - 1, eff)}" for i in (1, 2, 3)]
            if r.random() < 0.5:
                r.shuffle(cl)
            return f"({self.gen('E', env, d - 1, pure)}.case {{ {', '.join(cl)} }})"
        if c == 'apply':
            return f"({self.gen('F', env, d - 1, pure)}.apply[i64, i64]({self.gen('I', env, d - 1, pure)}))"
        if c == 'head':
            s = self.gen('S', env, d - 1, pure)
            return f"({s}.tail[i64].head[i64])" if r.random() < 0.4 else f"({s}.head[i64])"
        if c == 'obj':
            o = self.gen('O', env, d - 1, pure)
            m = r.choice(['m1', 'm2', 'm3'])
            if m == 'm1':
                return f"({o}.m1({self.gen('I', env, d - 1, pure)}))"
            if m == 'm2':
                return f"({o}.m2)"
            a = self.gen('I', env, d - 1, pure)
            return f"({o}.m3({a}, {a if r.random() < 0.3 else self.gen('I', env, d - 1, pure)}))"
        if c == 'selfapp':
            us = self.vars_of(env, 'U')
            if us and r.random() < 0.7:
                u = r.choice(us)
                return f"({u}.app({r.choice(us)}))"
            u = self.gen('U', env, d - 1, pure)
            return f"({u}.app({self.gen('U', env, d - 1, pure)}))"
        if c == 'fundef':
            return self.fundef_call(env, d, pure)
        if c == 'guard':
            e_, x_, o_, l_ = self.name(), self.name(), self.name(), self.name()
            f_, d_ = self.name(), self.name()
            if r.random() < 0.5:
                benv = env + [(e_, 'I', 'cns'), (x_, 'I', 'prd'), (o_, 'I', 'cns')]
                body = self.gen('I', benv, d - 1, True)
                obj = f"new {{ check({e_}, {x_}, {o_}) => {body} }}"
                call = f"{obj}.check({f_}, {self.gen('I', env, d - 1, pure)}, {d_})"
            else:
                benv = env + [(x_, 'I', 'prd'), (o_, 'I', 'cns'), (l_, 'I', 'prd'), (e_, 'I', 'cns')]
                body = self.gen('I', benv, d - 1, True)
                obj = f"new {{ peek => {self.gen('I', env, d - 1, eff)}, test({x_}, {o_}, {l_}, {e_}) => {body} }}"
                call = f"{obj}.test({self.gen('I', env, d - 1, pure)}, {d_}, {self.gen('I', env, d - 1, pure)}, {f_})"
            return f"(label {f_} {{ (label {d_} {{ 0 - ({call}) }}) + 1000 }})"
        if c == 'nestlabel':
            k1, k2, k3 = self.name(), self.name(), self.name()
            inner_env = env + [(k1, 'I', 'cns'), (k2, 'I', 'cns'), (k3, 'I', 'cns')]
            inner = f"(label {k3} {{ {self.gen('I', inner_env, d - 1, True)} }})"
            ctx = r.choice(["{t}", "({o} + {t})", "id({t})", "(goto {k1} ({t}))"])
            mid = ctx.format(t=inner, o=self.gen('I', env, 0, False), k1=k1)
            return f"(label {k1} {{ label {k2} {{ {mid} }} }})"
        if c == 'rescrut':
            # a list-typed binder of a pair pattern is matched on first thing in the clause and used again inside its own clause
            l1, l2, y, ys = self.name(), self.name(), self.name(), self.name()
            scr, other = (l1, l2) if r.random() < 0.5 else (l2, l1)
            e2 = env + [(l1, 'L', 'prd'), (l2, 'L', 'prd'), (y, 'I', 'prd'), (ys, 'L', 'prd')]
            use_other = f" + sum({other})" if r.random() < 0.5 else ""
            cons = f"Cons({y}, {ys}) => (({y} + sum({scr})) + {self.gen('I', e2, d - 1, eff)}){use_other}"
            pair = f"Tup2({self.gen('L', env, d - 1, pure)}, {self.gen('L', env, d - 1, pure)})"
            return f"({pair}.case {{ Tup2({l1}, {l2}) => {scr}.case[i64] {{ Nil => {self.gen('I', env, 0, False)}, {cons} }} }})"
        if c == 'print':
            pr = r.choice(['print_i64', 'println_i64'])
            return f"({pr}({self.gen('I', env, d - 1, pure)}); {self.gen('I', env, d - 1, eff)})"
        if c == 'exit':
            return f"(exit {self.gen('I', env, d - 1, pure)})"
        if c == 'effcodata':
            # a codata-typed term that has an effect before it yields its value (or never yields one)
            kind = r.choice(['print', 'exit'])
            if kind == 'print':
                return f"(println_i64({self.gen('I', env, d - 1, False)}); {self.gen(ty, env, d - 1, eff)})"
            return f"(println_i64({self.gen('I', env, d - 1, False)}); exit {self.gen('I', env, d - 1, False)})"
        if c == 'build':
            return self.build(ty, env, d, eff, pure)
        return self.leaf(ty, env)

    def build(self, ty, env, d, eff, pure):
        r = self.r
        if ty == 'L':
            return f"Cons({self.gen('I', env, d - 1, pure)}, {self.gen('L', env, d - 1, pure)})"
        if ty == 'P':
            a = self.gen('I', env, d - 1, pure)
            return f"Tup({a}, {a if r.random() < 0.2 else self.gen('I', env, d - 1, pure)})"
        if ty == 'E':
            return r.choice(['E1', 'E2', 'E3'])
        if ty == 'F':
            n = self.name()
            return f"new {{ apply({n}) => {self.gen('I', env + [(n, 'I', 'prd')], d - 1, eff)} }}"
        if ty == 'S':
            tl = r.choice(self.vars_of(env, 'S') or [f"nats({self.gen('I', env, d - 1, pure)})"])
            return f"new {{ head => {self.gen('I', env, d - 1, eff)}, tail => {tl} }}"
        if ty == 'U':
            n = self.name()
            return f"new {{ app({n}) => {self.gen('I', env + [(n, 'U', 'prd')], d - 1, eff)} }}"
        if ty == 'O':
            n, n2 = self.name(), self.name()
            if n == n2:
                n2 = n2 + 's'
            cl = [f"m1({n}) => {self.gen('I', env + [(n, 'I', 'prd')], d - 1, eff)}", f"m2 => {self.gen('I', env, d - 1, eff)}",
                  f"m3({n}, {n2}) => {self.gen('I', env + [(n, 'I', 'prd'), (n2, 'I', 'prd')], d - 1, eff)}"]
            if r.random() < 0.5:
                r.shuffle(cl)
            return "new { " + ", ".join(cl) + " }"
        return self.leaf(ty, env)

    def leaf(self, ty, env):
        r = self.r
        vs = self.vars_of(env, ty)
        if vs and r.random() < 0.6:
            return r.choice(vs)
        if ty == 'I':
            return self.lit()
        if ty == 'L':
            return r.choice(['Nil', 'Cons(1, Nil)'])
        if ty == 'P':
            return 'Tup(1, 2)'
        if ty == 'E':
            return r.choice(['E1', 'E2', 'E3'])
        if ty == 'F':
            n = self.name()
            return f"new {{ apply({n}) => {n} }}"
        if ty == 'S':
            return 'nats(0)'
        if ty == 'U':
            n = self.name()
            return f"new {{ app({n}) => 1 }}"
        return "new { m1(q) => q, m2 => 4, m3(q, w) => q - w }"

    def fundef_call(self, env, d, pure):
        """a fresh definition with 2-3 parameters of mixed types (names from the pool, so parameters are shadowed and
        rebound inside), possibly a covariable parameter; called with arguments from the current environment"""
        r = self.r
        self.nfun += 1
        fname = f"g{self.nfun}"
        ptys = [r.choice(['I', 'I', 'L', 'P', 'F', 'E']) for _ in range(r.choice([2, 3]))]
        pnames = []
        for _ in ptys:
            n = self.name()
            while n in pnames:
                n = n + 'p'
            pnames.append(n)
        penv = [(n, t, 'prd') for n, t in zip(pnames, ptys)]
        cns = r.random() < 0.3
        sig = ', '.join(f"{n}: {TYS[t]}" for n, t in zip(pnames, ptys))
        if cns:
            penv.append(('kk', 'I', 'cns'))
            sig += ", kk: cns i64"
        body = self.gen('I', penv, max(1, d - 1), True)
        self.defs.append(f"def {fname}({sig}): i64 {{ {body} }}\n")
        args = ', '.join(self.gen(t, env, max(0, d - 2), pure) for t in ptys)
        if cns:
            ks = self.vars_of(env, 'I', covar=True)
            if ks:
                return f"{fname}({args}, {r.choice(ks)})"
            return f"(label kz {{ {fname}({args}, kz) }})"
        return f"{fname}({args})"


def program(seed, mode='all', depth=3):
    out = []
    for unique in (False, True):
        g = G(seed, mode, unique)
        env = [('a', 'I', 'prd'), ('b', 'I', 'prd')]
        body = g.gen('I', env, depth, True)
        out.append(DECLS + EXTRA_DECLS + HELPERS + ''.join(g.defs) + f"\ndef main(a: i64, b: i64): i64 {{ {body} }}\n")
    return {'name': f"rand/{mode}/{depth}/{seed}", 'src': out[0], 'twin': out[1]}


def program_ext(seed, mode='all', depth=3, pure_codata=False):
    """extended grammar, distinct binders only (no twin: the open capture finding cannot show on these)"""
    g = G(seed, mode, True, ext=True, pure_codata=pure_codata)
    body = g.gen('I', [('a', 'I', 'prd'), ('b', 'I', 'prd')], depth, True)
    src = (DECLS + EXTRA_DECLS + EXT_DECLS + "data PairLL { Tup2(fst: List[i64], snd: List[i64]) }\n" + HELPERS + ''.join(g.defs)
           + f"\ndef main(a: i64, b: i64): i64 {{ {body} }}\n")
    return {'name': f"randx/{mode}/{depth}/{seed}", 'src': src}


def programs_ext(mode, seeds, depth=3, pure_codata=False):
    return [program_ext(s, mode, depth, pure_codata) for s in seeds]


def programs(mode, seeds, depth=3):
    return [program(s, mode, depth) for s in seeds]

"""Per-statement obligations: shape -> E0 request -> symbolic run of the real emitted text -> queries.

Every obligation has
  * `assume`  : I_Gamma(pre) + typing facts + layout-model facts   (list of z3 terms)
  * `fault`   : term, must be unsatisfiable together with `assume`
  * `exits`   : {label: (pc, [(goal name, term)])}, expected exits; unexpected exits must be unreachable
Goals are checked as  assume /\\ pc /\\ not goal  unsat, with a reachability twin  assume /\\ pc  sat.
"""
import z3
from bv import *  # noqa
import core, heap
from core import LoadError

STRIDE = None  # taken from isa.FIXED_JUMP_SIZE


# ------------------------------------------------------------------ request construction

def var(j):
    return ["v", j + 1]


def tyname(kind):
    return "i64" if kind == 'ext' else ("T" if kind == 'prd' else "U")


def binding(j, kind, name=None):
    return {"var": name if name is not None else var(j), "chi": kind, "ty": tyname(kind)}


def call(label):
    return {"k": "call", "label": label, "args": []}


def rest_kinds(p):
    """kinds of the untouched prefix of a context: a mix, so that roots in the rest can alias"""
    # object variables at positions 0 and 3: their first temporaries are the registers the back ends borrow as an
    # additional scratch register (x86-64: rax, AArch64: X10), so a borrowed-and-not-restored register is visible
    base = ['prd', 'ext', 'ext', 'cns']
    return [base[j] if j < 4 else 'ext' for j in range(p)]


def types_for(xtors_T=None, xtors_U=None):
    """xtors_*: list of (name, [kinds])"""
    def decl(name, xs):
        return {"name": name, "xtors": [{"name": n, "args": [binding(100 + i, k, name=f"f{i}") for i, k in enumerate(ks)]}
                                        for n, ks in xs]}
    return [decl("T", xtors_T or [("K0", [])]), decl("U", xtors_U or [("D0", [])])]


class Loc:
    def __init__(self, t):
        if 'panic' in t:
            raise LoadError(f"no temporary for this position: {t['panic']}")
        if 'reg' in t:
            self.reg = t['reg']
            self.off = None
        else:
            self.reg = None
            self.off = int(t['off'])

    def pre(self, st0):
        if self.reg is not None:
            return st0.regs[self.reg]
        return st0.env.stack_init(self.off)

    def post(self, st):
        if self.reg is not None:
            return st.regs[self.reg]
        o = self.off  # spill offsets are relative to the body's sp (= sp0, spd must be 0 at exits)
        if o in st.stack:
            return st.stack[o]
        if st.dead_below is not None and o < st.dead_below:
            return fresh('dead_stack')
        return st.env.stack_init(o)

    def __repr__(self):
        return self.reg if self.reg is not None else f"[sp+{self.off}]"


class Obligation:
    def __init__(self, shape):
        self.shape = shape
        self.assume = []
        self.fault = False
        self.fault_reasons = []
        self.exits = {}
        self.unexpected = {}
        self.notes = []
        self.load_error = None
        self.text = None
        self.extra = {}


def mk_pre(env, isa, kinds, temps, roots_extra=(), fixed=None):
    """symbolic pre-state for a context of the given kinds; `fixed` maps 'heap' / 'free' / ('fst', position)
    to a block index (or None for the null pointer): an exhaustive case split makes those pointers concrete"""
    st = core.State(env)
    isa.init_regs(st)
    st.mem = [[z3.BitVec(f"m_{b}_{w}", 64) for w in range(8)] for b in range(env.N)]
    locs = [(Loc(t[0]), Loc(t[1])) for t in temps if not (isinstance(t, dict) and 'panic' in t)]
    for key, b in (fixed or {}).items():
        val = 0 if b is None else env.baddr(b)
        if key == 'heap':
            st.regs[isa.HEAP_REG] = val
        elif key == 'free':
            st.regs[isa.FREE_REG] = val
        else:
            loc = locs[key[1]][0]
            if loc.reg is not None:
                st.regs[loc.reg] = val
            else:
                env._stack_init[loc.off] = val
    roots = [locs[j][0].pre(st) for j, k in enumerate(kinds) if k != 'ext'] + list(roots_extra)
    g = heap.pre_ghost(env)
    cs = heap.pre_inv(env, st.mem, st.regs[isa.HEAP_REG], st.regs[isa.FREE_REG], roots, g)
    # the heap does not wrap around the address space and starts above the null page
    cs.append(z3.ULT(bv(env.H), z3.BitVecVal(1 << 62, 64)))
    cs.append(z3.ULE(z3.BitVecVal(4096, 64), bv(env.H)))
    cs.append(z3.Extract(5, 0, bv(env.H)) == 0)
    return st, locs, g, cs


def mem_words_equal(N, m0, m1, words=range(8)):
    out = []
    for b in range(N):
        for w in words:
            if not same(m0[b][w], m1[b][w]):
                out.append(bv(m0[b][w]) == bv(m1[b][w]))
    return z3.And(*out) if out else z3.BoolVal(True)


def preserved_goals(pre_st, post_st, locs, kinds, positions, name="keep"):
    """variables at `positions` hold after what they held before (second temporary always, first one for
    object variables)"""
    out = []
    for j in positions:
        f, s = locs[j]
        out.append((f"{name}.snd[{j}]", bb(eq(s.post(post_st), s.pre(pre_st)))))
        if kinds[j] != 'ext':
            out.append((f"{name}.fst[{j}]", bb(eq(f.post(post_st), f.pre(pre_st)))))
    return out


def heap_same_goals(env, pre_st, post_st, isa):
    return [("heap.unchanged", mem_words_equal(env.N, pre_st.mem, post_st.mem)),
            ("heapreg.unchanged", bb(eq(post_st.regs[isa.HEAP_REG], pre_st.regs[isa.HEAP_REG]))),
            ("freereg.unchanged", bb(eq(post_st.regs[isa.FREE_REG], pre_st.regs[isa.FREE_REG])))]


def post_inv_goals(env, isa, pre_st, post_st, g, kinds2, locs, lay2, tail2, acquisitions, live2=None):
    """I_Gamma'(post) with the ghost reconstructed from the post machine state, the heap part of the frame,
    and the footprint clauses of C10"""
    N = env.N
    roots2 = [locs[j][0].post(post_st) for j, k in enumerate(kinds2) if k != 'ext']
    pg = heap.post_ghost(env, post_st.mem, post_st.regs[isa.HEAP_REG], post_st.regs[isa.FREE_REG], g.F)
    goals = [("I'." + n, t) for n, t in pg.ok]
    livew = [z3.Or(pg.used[b], pg.deff[b]) for b in range(N)]
    if live2 is not None:
        # liveness lemma: the walk-derived liveness equals the simple expression supplied by the spec;
        # the reference counts are then stated over the simple expression (FC + delta)
        goals.append(("I'.liveness_lemma", z3.And(*[livew[b] == bb(live2[b]) for b in range(N)])))
        fc2 = [heap.field_count_delta(env, pre_st.mem, g.live, post_st.mem, live2, g.FC, b) for b in range(N)]
    else:
        fc2 = [heap.field_count(env, post_st.mem, livew, b) for b in range(N)]
    # a block that stopped being in use (released or deferred) is no longer anybody's tail
    tail2 = [z3.And(bb(tail2[b]), pg.used[b]) for b in range(N)]
    goals += [("I'." + n, t) for n, t in heap.inv_common(env, post_st.mem, roots2, pg.used, pg.deff, lay2, tail2, fc2)]
    # frame: fields of blocks that were in use and still are (or are deferred) are untouched
    fr = []
    for b in range(N):
        same_fields = [bv(pre_st.mem[b][w]) == bv(post_st.mem[b][w]) for w in range(2, 8)
                       if not same(pre_st.mem[b][w], post_st.mem[b][w])]
        if same_fields:
            fr.append(z3.Implies(z3.And(g.used[b], z3.Or(pg.used[b], pg.deff[b])), z3.And(*same_fields)))
    goals.append(("frame.fields", z3.And(*fr) if fr else z3.BoolVal(True)))
    # C10: the frontier moves only when both lists are exhausted
    moved = pg.F != g.F
    goals.append(("C10.bump_leaves_lists_empty", z3.Implies(moved, z3.And(pg.nDEF == 0, pg.nLIN == 1))))
    goals.append(("C10.bump_bounded", z3.ULE(pg.F, g.F + heap.wv(acquisitions))))
    if acquisitions <= 1:
        goals.append(("C10.bump_only_when_empty", z3.Implies(moved, z3.And(g.nLIN == 1, g.nDEF == 0))))
    else:
        # k acquisitions consume the linear list first: a bump needs fewer free blocks than acquisitions
        goals.append(("C10.bump_only_when_exhausted",
                      z3.Implies(moved, z3.And(z3.ULE(g.nLIN, heap.wv(acquisitions))))))
    return goals, pg


CMP = {'eq': lambda a, b: eq(a, b), 'ne': lambda a, b: ne(a, b), 'lt': lambda a, b: slt(a, b),
       'le': lambda a, b: sle(a, b), 'gt': lambda a, b: slt(b, a), 'ge': lambda a, b: sle(b, a)}
OPS = {'sum': add, 'sub': sub, 'prod': mul, 'div': sdiv, 'rem': srem}


def request_for(shape):
    """E0 fragment request (without backend) and static info for a shape"""
    k = shape['kind']
    info = {}
    if k in ('lit', 'op', 'ifc', 'print', 'exit', 'call', 'invoke'):
        n = shape['n']
        kinds = shape.get('kinds') or rest_kinds(n)
        kinds = list(kinds)
    if k == 'lit':
        ctx = [binding(j, kinds[j]) for j in range(n)]
        stmt = {"k": "literal", "lit": shape['lit'], "var": var(n), "next": call("k")}
        return ctx, types_for(), stmt, dict(kinds=kinds, kinds2=kinds + ['ext'])
    if k == 'op':
        for p in (shape['a'], shape['b']):
            kinds[p] = 'ext'
        ctx = [binding(j, kinds[j]) for j in range(n)]
        stmt = {"k": "op", "fst": var(shape['a']), "op": shape['op'], "snd": var(shape['b']), "var": var(n), "next": call("k")}
        return ctx, types_for(), stmt, dict(kinds=kinds, kinds2=kinds + ['ext'])
    if k == 'ifc':
        kinds[shape['a']] = 'ext'
        if shape.get('b') is not None:
            kinds[shape['b']] = 'ext'
        ctx = [binding(j, kinds[j]) for j in range(n)]
        stmt = {"k": "ifc", "sort": shape['sort'], "fst": var(shape['a']),
                "snd": var(shape['b']) if shape.get('b') is not None else None,
                "thenc": call("then"), "elsec": call("else")}
        return ctx, types_for(), stmt, dict(kinds=kinds, kinds2=kinds)
    if k == 'print':
        kinds[shape['a']] = 'ext'
        ctx = [binding(j, kinds[j]) for j in range(n)]
        stmt = {"k": "print", "newline": shape['newline'], "var": var(shape['a']), "next": call("k")}
        return ctx, types_for(), stmt, dict(kinds=kinds, kinds2=kinds)
    if k == 'exit':
        kinds[shape['a']] = 'ext'
        ctx = [binding(j, kinds[j]) for j in range(n)]
        return ctx, types_for(), {"k": "exit", "var": var(shape['a'])}, dict(kinds=kinds, kinds2=kinds)
    if k == 'call':
        ctx = [binding(j, kinds[j]) for j in range(n)]
        return ctx, types_for(), {"k": "call", "label": "f", "args": []}, dict(kinds=kinds, kinds2=kinds)
    if k == 'let':
        p = shape['p']
        args = list(shape['args'])
        kinds = rest_kinds(p) + args
        ctx = [binding(j, kinds[j]) for j in range(len(kinds))]
        nx, pos = shape.get('nxtors', 2), shape.get('tagpos', 1)
        xt = [(f"K{i}", args if i == pos else []) for i in range(nx)]
        stmt = {"k": "let", "var": var(len(kinds)), "ty": "T", "tag": f"K{pos}",
                "args": [binding(p + i, a) for i, a in enumerate(args)], "next": call("k")}
        return ctx, types_for(xtors_T=xt), stmt, dict(kinds=kinds, kinds2=rest_kinds(p) + ['prd'])
    if k == 'switch':
        p = shape['p']
        clauses = shape['clauses']            # list of kinds lists
        kinds = rest_kinds(p) + ['prd']
        ctx = [binding(j, kinds[j]) for j in range(len(kinds))]
        xt = [(f"K{i}", c) for i, c in enumerate(clauses)]
        cl = [{"xtor": f"K{i}", "context": [binding(p + j, a) for j, a in enumerate(c)], "body": call(f"c{i}")}
              for i, c in enumerate(clauses)]
        stmt = {"k": "switch", "var": var(p), "ty": "T", "clauses": cl}
        return ctx, types_for(xtors_T=xt), stmt, dict(kinds=kinds)
    if k == 'create':
        p = shape['p']
        envk = list(shape['env'])
        methods = shape['methods']            # list of kinds lists (arguments of each destructor)
        kinds = rest_kinds(p) + envk
        ctx = [binding(j, kinds[j]) for j in range(len(kinds))]
        xt = [(f"D{i}", c) for i, c in enumerate(methods)]
        cl = [{"xtor": f"D{i}", "context": [binding(200 + j, a, name=["a", 300 + 10 * i + j]) for j, a in enumerate(c)],
               "body": call(f"m{i}")} for i, c in enumerate(methods)]
        stmt = {"k": "create", "var": var(len(kinds)), "ty": "U",
                "context": [binding(p + i, a) for i, a in enumerate(envk)], "clauses": cl, "next": call("k")}
        return ctx, types_for(xtors_U=xt), stmt, dict(kinds=kinds, kinds2=rest_kinds(p) + ['cns'])
    if k == 'method':
        # the code of method i of a closure: entered with the destructor's arguments, then the closure
        envk = list(shape['env'])
        methods = shape['methods']
        i = shape['i']
        xt = [(f"D{j}", c) for j, c in enumerate(methods)]
        cl = [{"xtor": f"D{j}", "context": [binding(jj, a) for jj, a in enumerate(c)], "body": call(f"m{j}")}
              for j, c in enumerate(methods)]
        ctx = [binding(50 + j, a) for j, a in enumerate(envk)]
        stmt = {"k": "create", "var": var(90), "ty": "U", "context": ctx, "clauses": cl, "next": call("k")}
        kinds = list(methods[i]) + ['cns']
        return ctx, types_for(xtors_U=xt), stmt, dict(kinds=kinds)
    if k == 'invoke':
        # context = arguments then closure
        nd, pos = shape.get('ndtors', 2), shape.get('tagpos', 1)
        kinds[n - 1] = 'cns'
        ctx = [binding(j, kinds[j]) for j in range(n)]
        xt = [(f"D{i}", kinds[:n - 1] if i == pos else []) for i in range(nd)]
        stmt = {"k": "invoke", "var": var(n - 1), "tag": f"D{pos}", "ty": "U",
                "args": [binding(j, kinds[j]) for j in range(n - 1)]}
        return ctx, types_for(xtors_U=xt), stmt, dict(kinds=kinds, kinds2=kinds)
    if k == 'substitute':
        old = list(shape['old'])              # kinds of the old context (offset by window start p)
        p = shape['p']
        mp = shape['map']                     # new position i <- old position mp[i] (relative to p)
        kinds = rest_kinds(p) + old
        ctx = [binding(j, kinds[j]) for j in range(len(kinds))]
        rearr = [[binding(j, kinds[j], name=["w", 500 + j]), var(j)] for j in range(p)]
        kinds2 = rest_kinds(p)
        for i, src in enumerate(mp):
            rearr.append([binding(0, old[src], name=["w", 600 + i]), var(p + src)])
            kinds2.append(old[src])
        stmt = {"k": "substitute", "rearrange": rearr, "next": call("k")}
        # the code of a substitution must not depend on what the variables' types declare: alternate between types with
        # only nullary xtors and types with fields (a back end that consults the declaration shows up in either half)
        if (p + len(mp) + len(old)) % 2 == 0:
            tys = types_for()
        else:
            tys = types_for(xtors_T=[("K0", []), ("K1", ['ext', 'prd'])], xtors_U=[("D0", ['ext']), ("D1", [])])
        return ctx, tys, stmt, dict(kinds=kinds, kinds2=kinds2)
    raise ValueError(k)


def build(isa, e0, shape, N, sp_class=8):
    ob = Obligation(shape)
    ctx, types, stmt, info = request_for(shape)
    r = e0.fragment(isa.NAME, types, ctx, stmt)
    if not r.get('ok'):
        ob.load_error = f"code generator panicked: {r.get('panic')}"
        return ob
    ob.text = r['lines']
    reset_div()
    try:
        _build(isa, e0, shape, N, sp_class, ob, info)
        ob.assume += list(div_axioms)
        ob.sat_hints = div_hints()
    except LoadError as e:
        ob.load_error = str(e)
    return ob


def _tempmap(e0, isa, n, cache={}):
    key = (isa.NAME, n)
    if key not in cache:
        cache[key] = e0.tempmap(isa.NAME, n)
    return cache[key]


def _build(isa, e0, shape, N, sp_class, ob, info):
    k = shape['kind']
    stride = isa.FIXED_JUMP_SIZE
    kinds = info['kinds']
    prog = core.Program(isa, ob.text)
    if prog.enc_errors:
        ob.notes += [f"C14: {e}" for e in prog.enc_errors]
        ob.extra['enc_errors'] = prog.enc_errors
    if prog.dups:
        raise LoadError(f"label defined twice: {prog.dups}")
    env = core.Env(isa, N, sp_class=sp_class)
    maxn = max(len(kinds), len(info.get('kinds2', kinds))) + 12
    temps = _tempmap(e0, isa, maxn)
    fixed = {}
    for key, b in (shape.get('split') or {}).items():
        fixed[key if key in ('heap', 'free') else ('fst', int(key))] = b
    st0, locs, g, cs = mk_pre(env, isa, kinds, temps, fixed=fixed)
    ob.assume += cs
    pre = st0.copy()
    n = len(kinds)

    def snd_pre(j):
        return locs[j][1].pre(pre)

    def fst_pre(j):
        return locs[j][0].pre(pre)

    acquisitions = 0
    if k in ('let', 'create'):
        a = shape['args'] if k == 'let' else shape['env']
        acquisitions = len(heap.chain_layout(a))
    # enough heap: the fragment may bump `acquisitions` times
    ob.assume.append(z3.ULE(z3.ZeroExt(4, g.F) + acquisitions, z3.BitVecVal(N - 1, 8)))

    # ---- typing facts of the pre-state
    entry = 0
    if k == 'method':
        cands = [nm for nm in prog.labels if (nm + '_D0') in prog.labels]
        if len(cands) != 1:
            raise LoadError(f"cannot identify the method table label among {sorted(prog.labels)}")
        T = cands[0]
        if len(shape['methods']) > 1:
            if T not in prog.tables or len(prog.tables[T]) != len(shape['methods']):
                raise LoadError(f"method table {T} does not consist of {len(shape['methods'])} fixed-size jumps")
            entry = prog.tables[T][shape['i']]
        else:
            entry = prog.labels[T]
        ob.extra['entry'] = entry
        p = len(kinds) - 1
        tcs, ptrs = heap.chain_typing(env, pre.mem, g, fst_pre(p), shape['env'])
        ob.assume += tcs
        chains = {shape['i']: ptrs}
    if k == 'switch':
        p = shape['p']
        tag = snd_pre(p)
        ob.assume.append(z3.Or(*[bv(tag) == stride * i for i in range(len(shape['clauses']))]))
        chains = []
        for i, c in enumerate(shape['clauses']):
            tcs, ptrs = heap.chain_typing(env, pre.mem, g, fst_pre(p), c)
            ob.assume.append(z3.Implies(bv(tag) == stride * i, z3.And(*tcs)) if len(shape['clauses']) > 1 else z3.And(*tcs))
            chains.append(ptrs)
    if k == 'invoke':
        TBL = z3.BitVec('TBL', 64)
        ob.assume.append(bv(snd_pre(n - 1)) == TBL)

    exits = core.run(prog, st0, entry=entry)
    ob.assume += core.layout_assumptions(prog, env)
    ob.fault = env.fault_term()
    ob.fault_reasons = [r for r, _ in env.faults]
    ob.notes += env.notes
    expected = {}

    def common_exit_goals(st):
        gl = []
        if st.spd != 0:
            gl.append(("sp.restored", z3.BoolVal(False)))
        return gl

    if k in ('lit', 'op'):
        st = exits.get('k_')
        if st is not None:
            gl = common_exit_goals(st)
            x = locs[n][1].post(st)
            if k == 'lit':
                gl.append(("value", bb(eq(x, shape['lit'] & M64))))
            else:
                a, b = snd_pre(shape['a']), snd_pre(shape['b'])
                if shape['op'] in ('div', 'rem'):
                    ob.assume.append(bv(b) != 0)
                    ob.assume.append(z3.Not(z3.And(bv(a) == SIGN, bv(b) == M64)))
                gl.append(("value", bb(eq(x, OPS[shape['op']](a, b)))))
            gl += preserved_goals(pre, st, locs, kinds, range(n))
            gl += heap_same_goals(env, pre, st, isa)
            gl.append(("no_call", z3.BoolVal(len(st.events) == 0)))
            expected['k_'] = (st, gl)
    elif k == 'ifc':
        a = snd_pre(shape['a'])
        b = snd_pre(shape['b']) if shape.get('b') is not None else 0
        c = bb(CMP[shape['sort']](a, b))
        same_operand = shape.get('b') is not None and shape['a'] == shape['b']
        holds = shape['sort'] in ('eq', 'le', 'ge')
        for lab, want in (('then_', c), ('else_', z3.Not(c))):
            if same_operand and (lab == 'then_') != holds:
                continue    # comparing a variable with itself: the other branch must be unreachable
            st = exits.get(lab)
            if st is not None:
                gl = common_exit_goals(st) + [("branch", want)]
                gl += preserved_goals(pre, st, locs, kinds, range(n))
                gl += heap_same_goals(env, pre, st, isa)
                gl.append(("no_call", z3.BoolVal(len(st.events) == 0)))
                expected[lab] = (st, gl)
        ob.extra['must_reach'] = ['then_', 'else_']
    elif k == 'print':
        st = exits.get('k_')
        if st is not None:
            gl = common_exit_goals(st)
            fname = 'println_i64' if shape['newline'] else 'print_i64'
            okev = len(st.events) == 1 and st.events[0][0] == fname
            gl.append(("one_call", z3.BoolVal(okev)))
            if okev:
                gl.append(("argument", bb(eq(st.events[0][1], snd_pre(shape['a'])))))
            gl += preserved_goals(pre, st, locs, kinds, range(n))
            gl += heap_same_goals(env, pre, st, isa)
            expected['k_'] = (st, gl)
    elif k == 'exit':
        st = exits.get('cleanup')
        if st is not None:
            gl = common_exit_goals(st) + [("result", bb(eq(st.regs[isa.RET_REG], snd_pre(shape['a']))))]
            # the heap and free registers are dead at exit (on AArch64 the return register is the heap register)
            gl.append(("heap.unchanged", mem_words_equal(env.N, pre.mem, st.mem)))
            gl.append(("no_call", z3.BoolVal(len(st.events) == 0)))
            expected['cleanup'] = (st, gl)
    elif k == 'call':
        st = exits.get('f_')
        if st is not None:
            gl = common_exit_goals(st) + preserved_goals(pre, st, locs, kinds, range(n)) + heap_same_goals(env, pre, st, isa)
            gl.append(("no_call", z3.BoolVal(len(st.events) == 0)))
            expected['f_'] = (st, gl)
    elif k == 'invoke':
        st = exits.get('<computed>')
        if st is not None:
            nd, pos = shape.get('ndtors', 2), shape.get('tagpos', 1)
            want = add(TBL, stride * pos) if nd > 1 else TBL
            gl = common_exit_goals(st) + [("target", bb(eq(st.aux['<target>'], want)))]
            # arguments and the closure's environment pointer stay in place (the table address is consumed)
            gl += preserved_goals(pre, st, locs, kinds, range(n - 1))
            gl.append((f"keep.fst[{n - 1}]", bb(eq(locs[n - 1][0].post(st), fst_pre(n - 1)))))
            gl += heap_same_goals(env, pre, st, isa)
            gl.append(("no_call", z3.BoolVal(len(st.events) == 0)))
            expected['<computed>'] = (st, gl)
    elif k == 'substitute':
        st = exits.get('k_')
        if st is not None:
            p, mp, old = shape['p'], shape['map'], shape['old']
            kinds2 = info['kinds2']
            gl = common_exit_goals(st)
            for j in range(p):
                gl += preserved_goals(pre, st, locs, kinds, [j])
            for i, src in enumerate(mp):
                gl.append((f"assign.snd[{i}<-{src}]", bb(eq(locs[p + i][1].post(st), snd_pre(p + src)))))
                if old[src] != 'ext':
                    gl.append((f"assign.fst[{i}<-{src}]", bb(eq(locs[p + i][0].post(st), fst_pre(p + src)))))
            ig, pg = post_inv_goals(env, isa, pre, st, g, kinds2, locs, g.lay, g.tail, 0, live2=g.live)
            gl += ig
            gl.append(("frontier.unchanged", pg.F == g.F))
            gl.append(("heapreg.unchanged", bb(eq(st.regs[isa.HEAP_REG], pre.regs[isa.HEAP_REG]))))
            gl.append(("no_call", z3.BoolVal(len(st.events) == 0)))
            expected['k_'] = (st, gl)
    elif k in ('let', 'create'):
        st = exits.get('k_')
        p = shape['p']
        args = shape['args'] if k == 'let' else shape['env']
        if st is not None:
            kinds2 = info['kinds2']
            gl = common_exit_goals(st)
            gl += preserved_goals(pre, st, locs, kinds, range(p))
            xf, xs = locs[p][0].post(st), locs[p][1].post(st)
            if k == 'let':
                gl.append(("tag", bb(eq(xs, stride * shape.get('tagpos', 1)))))
            else:
                # the table label is the one the method labels are derived from (T, T_D0, T_D1, ...)
                cands = [nm for nm in prog.labels if (nm + '_D0') in prog.labels]
                if len(cands) != 1:
                    raise LoadError(f"cannot identify the method table label among {sorted(prog.labels)}")
                first = cands[0]
                gl.append(("table", bb(eq(xs, env.label_addr(prog.canon[first])))))
                ob.extra['table_label'] = first
            blocks = heap.chain_layout(args)
            lay2 = [[g.lay[b][f] for f in range(3)] for b in range(N)]
            tail2 = list(g.tail)
            if not blocks:
                gl.append(("no_allocation", bb(eq(xf, 0))))
            else:
                ptr = xf
                ptrs = []
                for j, blk in enumerate(blocks):
                    at = [bv(ptr) == bv(env.baddr(b)) for b in range(N)]
                    gl.append((f"chain[{j}].is_block", z3.Or(*at)))
                    gl.append((f"chain[{j}].was_free", z3.And(*[z3.Implies(at[b], z3.Not(g.used[b])) for b in range(N)])))
                    for q in ptrs:
                        gl.append((f"chain[{j}].distinct", bv(ptr) != bv(q)))
                    bits = heap.layout_bits(args, blk)
                    for b in range(N):
                        for f in range(3):
                            lay2[b][f] = z3.If(at[b], z3.BitVecVal(bits[f], 2), lay2[b][f])
                        tail2[b] = z3.If(at[b], z3.BoolVal(j > 0), tail2[b])
                    for f, e in enumerate(blk):
                        w1 = heap.select_word(env, ptr, st.mem, 2 + 2 * f)
                        w2 = heap.select_word(env, ptr, st.mem, 3 + 2 * f)
                        if e[0] == 'arg':
                            a = p + e[1]
                            gl.append((f"chain[{j}].field[{f}].snd", bb(eq(w2, snd_pre(a)))))
                            if args[e[1]] == 'ext':
                                gl.append((f"chain[{j}].field[{f}].fst", bb(eq(w1, 0))))
                            else:
                                gl.append((f"chain[{j}].field[{f}].fst", bb(eq(w1, fst_pre(a)))))
                        elif e[0] == 'unused':
                            gl.append((f"chain[{j}].field[{f}].fst", bb(eq(w1, 0))))
                    ptrs.append(ptr)
                    if j + 1 < len(blocks):
                        ptr = heap.select_word(env, ptr, st.mem, 6)
            live2 = None
            if acquisitions == 1:
                newp = bv(ptrs[0])
                live2 = [z3.Or(newp == bv(env.baddr(b)),
                               z3.And(g.live[b], z3.Not(z3.And(g.nLIN == 1, g.deff[b], g.dpos[b] == g.nDEF - 1))))
                         for b in range(N)]
            elif acquisitions == 0:
                live2 = g.live
            ig, pg = post_inv_goals(env, isa, pre, st, g, kinds2, locs, lay2, tail2, acquisitions, live2=live2)
            gl += ig
            gl.append(("no_call", z3.BoolVal(len(st.events) == 0)))
            expected['k_'] = (st, gl)
    elif k in ('switch', 'method'):
        if k == 'switch':
            p = shape['p']
            todo = [(i, c, f"c{i}_") for i, c in enumerate(shape['clauses'])]
        else:
            p = len(kinds) - 1
            todo = [(shape['i'], shape['env'], f"m{shape['i']}_")]
        for i, c, lab in todo:
            st = exits.get(lab)
            if st is None:
                continue
            kinds2 = kinds[:p] + list(c)
            gl = common_exit_goals(st)
            if k == 'switch' and len(shape['clauses']) > 1:
                gl.append(("dispatch", bv(snd_pre(p)) == stride * i))
            gl += preserved_goals(pre, st, locs, kinds, range(p))
            blocks = heap.chain_layout(c)
            ptrs = chains[i]
            for j, blk in enumerate(blocks):
                for f, e in enumerate(blk):
                    if e[0] != 'arg':
                        continue
                    a = p + e[1]
                    w1 = heap.select_word(env, ptrs[j], pre.mem, 2 + 2 * f)
                    w2 = heap.select_word(env, ptrs[j], pre.mem, 3 + 2 * f)
                    gl.append((f"load.snd[{e[1]}]", bb(eq(locs[a][1].post(st), w2))))
                    if c[e[1]] != 'ext':
                        gl.append((f"load.fst[{e[1]}]", bb(eq(locs[a][0].post(st), w1))))
            if blocks:
                hdr0 = heap.select_word(env, ptrs[0], pre.mem, 0)
                live2 = [z3.And(g.live[b], z3.Not(z3.And(bv(hdr0) == 0, z3.Or(*[bv(q) == bv(env.baddr(b)) for q in ptrs]))))
                         for b in range(N)]
            else:
                live2 = g.live
            ig, pg = post_inv_goals(env, isa, pre, st, g, kinds2, locs, g.lay, g.tail, 0, live2=live2)
            gl += ig
            gl.append(("frontier.unchanged", pg.F == g.F))
            gl.append(("no_call", z3.BoolVal(len(st.events) == 0)))
            expected[lab] = (st, gl)
    else:
        raise LoadError(f"no spec for {k}")

    want = {'lit': ['k_'], 'op': ['k_'], 'ifc': ['then_', 'else_'], 'print': ['k_'], 'exit': ['cleanup'],
            'call': ['f_'], 'invoke': ['<computed>'], 'substitute': ['k_'], 'let': ['k_'], 'create': ['k_'],
            'switch': [f"c{i}_" for i in range(len(shape.get('clauses', [])))],
            'method': [f"m{shape.get('i')}_"]}[k]
    if k == 'ifc' and shape.get('b') is not None and shape['a'] == shape['b']:
        want = ['then_' if shape['sort'] in ('eq', 'le', 'ge') else 'else_']
    for lab in want:
        if lab not in expected:
            raise LoadError(f"expected exit {lab} is never reached syntactically (exits: {sorted(exits)})")
    ob.exits = {lab: (st.pc, gl) for lab, (st, gl) in expected.items()}
    ob.unexpected = {lab: st.pc for lab, st in exits.items() if lab not in expected}
    ob.extra['env'] = env
    ob.extra['pre'] = pre
    ob.extra['ghost'] = g
    ob.extra['locs'] = locs
    ob.extra['exit_states'] = {lab: st for lab, (st, gl) in expected.items()}


def describe_model(ob, lab, m):
    """concrete pre/post state of a counterexample (for replay files and debugging)"""
    env, pre, g, locs = ob.extra['env'], ob.extra['pre'], ob.extra['ghost'], ob.extra['locs']
    st = ob.extra['exit_states'].get(lab)
    N = env.N

    def ev(t):
        if isinstance(t, (int, bool)):
            return t
        v = m.eval(t, model_completion=True)
        if z3.is_bv_value(v):
            return v.as_long()
        if z3.is_true(v):
            return True
        if z3.is_false(v):
            return False
        return str(v)
    H = ev(bv(env.H))

    def p(v):
        v = ev(v)
        if isinstance(v, int) and H <= v < H + 64 * N and (v - H) % 64 == 0:
            return f"B{(v - H) // 64}"
        return hex(v) if isinstance(v, int) else v
    names = {0: 'USED', 1: 'LIN', 2: 'DEF', 3: 'FRESH'}
    out = {'H': hex(H), 'F': ev(g.F), 'nLIN': ev(g.nLIN), 'nDEF': ev(g.nDEF), 'blocks': [], 'regs': {}, 'vars': []}
    for b in range(N):
        out['blocks'].append({'b': b, 'st': names[ev(g.st[b])], 'lpos': ev(g.lpos[b]), 'dpos': ev(g.dpos[b]),
                              'lay': [ev(x) for x in g.lay[b]], 'tail': ev(g.tail[b]), 'FC': ev(g.FC[b]),
                              'pre': [p(w) for w in pre.mem[b]],
                              'post': [p(w) for w in st.mem[b]] if st is not None else None})
    for r in pre.regs:
        out['regs'][r] = (p(pre.regs[r]), p(st.regs[r]) if st is not None else None)
    for j, (f, s) in enumerate(locs[:len(ob.extra.get('kinds', [])) + 3]):
        out['vars'].append({'pos': j, 'fst': (str(f), p(f.pre(pre)), p(f.post(st)) if st is not None else None),
                            'snd': (str(s), p(s.pre(pre)), p(s.post(st)) if st is not None else None)})
    return out

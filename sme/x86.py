"""x86-64 subset: parser for exactly the NASM forms `axcut2x86_64::code::Code` can print, and their
semantics on an SME state.  Trusted base: this table."""
import re
import z3
from core import Ins, LoadError
from bv import *  # noqa

NAME = 'x86_64'
FIXED_JUMP_SIZE = 5           # `jmp near L` = E9 rel32
REGS = ['rax', 'rcx', 'rdx', 'rbx', 'rbp', 'rsi', 'rdi'] + [f"r{i}" for i in range(8, 16)]
SP = 'rsp'
CALLER_SAVED = ['rax', 'rcx', 'rdx', 'rsi', 'rdi', 'r8', 'r9', 'r10', 'r11']
CALLEE_SAVED = ['rbx', 'rbp', 'r12', 'r13', 'r14', 'r15']
ARG_REGS = ['rdi', 'rsi', 'rdx', 'rcx', 'r8', 'r9']
RET_REG = 'rax'
HEAP_REG, FREE_REG, TEMP_REGS = 'rbx', 'rbp', ['rcx']
CALL_ALIGN = 0                # sp mod 16 required at a call instruction
BODY_SP_CLASS = 8             # sp mod 16 in the routine body (entry 8, six pushes, 2048 spill bytes); re-derived by C13

_reg = r'(?:r(?:ax|cx|dx|bx|bp|sp|si|di|8|9|1[0-5]))'
_imm = r'(-?\d+)'
_mem = rf'\[({_reg}) \+ ?{_imm}\]'
_lab = r'([A-Za-z_.$][A-Za-z0-9_.$]*)'

PATTERNS = [
    (re.compile(rf'^(add|sub|imul|mov|cmp) ({_reg}), ({_reg})$'), 'rr'),
    (re.compile(rf'^(add|sub|imul|mov|cmp) ({_reg}), {_mem}$'), 'rm'),
    (re.compile(rf'^(add|sub|mov|cmp) {_mem}, ({_reg})$'), 'mr'),
    (re.compile(rf'^(add|sub|mov|cmp) ({_reg}), {_imm}$'), 'ri'),
    (re.compile(rf'^(add|mov|cmp) qword {_mem}, {_imm}$'), 'mi'),
    (re.compile(rf'^idiv ({_reg})$'), 'idiv_r'),
    (re.compile(rf'^idiv qword {_mem}$'), 'idiv_m'),
    (re.compile(r'^cqo$'), 'cqo'),
    (re.compile(rf'^jmp ({_reg})$'), 'jmp_r'),
    (re.compile(rf'^jmp near {_lab}$'), 'jmp_near'),
    (re.compile(rf'^jmp {_lab}$'), 'jmp_l'),
    (re.compile(rf'^lea ({_reg}), \[rel {_lab}\]$'), 'lea'),
    (re.compile(rf'^(je|jne|jl|jle|jg|jge) {_lab}$'), 'jcc'),
    (re.compile(rf'^push ({_reg})$'), 'push'),
    (re.compile(rf'^pop ({_reg})$'), 'pop'),
    (re.compile(rf'^call {_lab}$'), 'call'),
    (re.compile(r'^ret$'), 'ret'),
    (re.compile(rf'^{_lab}:$'), 'label'),
]
DIRECTIVE = re.compile(r'^(section |extern |global )')


def fits32(v):
    return -(1 << 31) <= v < (1 << 31)


def parse(lines):
    out = []
    enc = []
    for raw in lines:
        for line in raw.split('\n'):
            s = line.strip()
            if not s or s.startswith(';') or DIRECTIVE.match(s):
                continue
            for pat, kind in PATTERNS:
                m = pat.match(s)
                if m:
                    break
            else:
                raise LoadError(f"x86-64: unparsable line {s!r}")
            g = m.groups()
            if kind == 'rr':
                out.append(Ins(g[0] + '_rr', (g[1], g[2]), s))
            elif kind == 'rm':
                out.append(Ins(g[0] + '_rm', (g[1], g[2], int(g[3])), s))
            elif kind == 'mr':
                out.append(Ins(g[0] + '_mr', (g[1], int(g[2]), g[3]), s))
            elif kind == 'ri':
                v = int(g[2])
                if not (-(1 << 63) <= v < (1 << 64)):
                    enc.append(f"immediate out of 64-bit range: {s}")
                if g[0] != 'mov' and not fits32(v):
                    enc.append(f"immediate does not fit imm32: {s}")
                out.append(Ins(g[0] + '_ri', (g[1], v), s))
            elif kind == 'mi':
                v = int(g[3])
                if not fits32(v):
                    enc.append(f"immediate does not fit imm32 in a memory-destination form: {s}")
                out.append(Ins(g[0] + '_mi', (g[1], int(g[2]), v), s))
            elif kind == 'idiv_r':
                out.append(Ins('idiv_r', (g[0],), s))
            elif kind == 'idiv_m':
                out.append(Ins('idiv_m', (g[0], int(g[1])), s))
            elif kind == 'cqo':
                out.append(Ins('cqo', (), s))
            elif kind == 'jmp_r':
                out.append(Ins('ijmp', (g[0],), s))
            elif kind == 'jmp_near':
                out.append(Ins('jmpfixed', (g[0],), s))
            elif kind == 'jmp_l':
                out.append(Ins('jmp', (g[0],), s))
            elif kind == 'lea':
                out.append(Ins('lea_label', (g[0], g[1]), s))
            elif kind == 'jcc':
                out.append(Ins('cjmp', (g[0], g[1]), s))
            elif kind in ('push', 'pop'):
                out.append(Ins(kind, (g[0],), s))
            elif kind == 'call':
                out.append(Ins('call', (g[0],), s))
            elif kind == 'ret':
                out.append(Ins('ret', (), s))
            elif kind == 'label':
                out.append(Ins('label', (g[0],), s))
    return out, enc


def init_regs(st, prefix='r0_'):
    for r in REGS:
        st.regs[r] = z3.BitVec(prefix + r, 64)


def _load(st, base, off):
    if base == SP:
        return st.stack_load(off)
    return st.heap_load(st.get(base), off)


def _store(st, base, off, v):
    if base == SP:
        st.stack_store(off, v)
    else:
        st.heap_store(st.get(base), off, v)


def _getr(st, r):
    if r == SP:
        raise LoadError("rsp used as a data operand")
    return st.get(r)


def _setr(st, r, v):
    if r == SP:
        raise LoadError("rsp used as a data destination")
    st.set(r, v)


def _alu(op, a, b):
    if op == 'add':
        return add(a, b)
    if op == 'sub':
        return sub(a, b)
    if op == 'imul':
        return mul(a, b)
    raise LoadError(op)


def cond_of(st, cc):
    f = st.flags
    if f is None or f[0] != 'cmp':
        return fresh_bool('staleflags')
    a, b = f[1], f[2]
    return {'je': lambda: eq(a, b), 'jne': lambda: ne(a, b), 'jl': lambda: slt(a, b),
            'jle': lambda: sle(a, b), 'jg': lambda: slt(b, a), 'jge': lambda: sle(b, a)}[cc]()


def _idiv(st, d):
    env = st.env
    rax, rdx = st.get('rax'), st.get('rdx')
    sext = norm(ite(slt(rax, 0), M64, 0))
    if same(rdx, sext):
        env.fault("idiv: division by zero", b_and(st.pc, eq(d, 0)))
        env.fault("idiv: quotient overflow (MIN / -1)", b_and(st.pc, eq(rax, SIGN), eq(d, M64)))
        q, r = sdiv(rax, d), srem(rax, d)
    else:
        env.notes.append("idiv with rdx:rax not provably a sign-extended 64-bit value: result undefined")
        q, r = fresh('idivq'), fresh('idivr')
    st.set('rax', q)
    st.set('rdx', r)
    st.flags = ('undef',)


def step(st, ins):
    op, a = ins.op, ins.a
    if op == 'label':
        return ('next',)
    if '_' in op and op.split('_')[0] in ('add', 'sub', 'imul', 'mov', 'cmp'):
        base, form = op.split('_')
        if form == 'rr':
            if a[0] == SP or a[1] == SP:
                raise LoadError(f"unsupported use of rsp: {ins.raw}")
            dst, src = _getr(st, a[0]), _getr(st, a[1])
            wr = lambda v: _setr(st, a[0], v)
        elif form == 'rm':
            dst, src = _getr(st, a[0]), _load(st, a[1], a[2])
            wr = lambda v: _setr(st, a[0], v)
        elif form == 'mr':
            src = _getr(st, a[2])
            dst = _load(st, a[0], a[1]) if base != 'mov' else None
            wr = lambda v: _store(st, a[0], a[1], v)
        elif form == 'ri':
            if a[0] == SP:
                if base not in ('add', 'sub'):
                    raise LoadError(f"unsupported use of rsp: {ins.raw}")
                st.spd += a[1] if base == 'add' else -a[1]
                st.flags = ('undef',)
                return ('next',)
            dst, src = _getr(st, a[0]), a[1] & M64
            wr = lambda v: _setr(st, a[0], v)
        elif form == 'mi':
            src = a[2] & M64
            dst = _load(st, a[0], a[1]) if base != 'mov' else None
            wr = lambda v: _store(st, a[0], a[1], v)
        else:
            raise LoadError(op)
        if base == 'mov':
            wr(src)
        elif base == 'cmp':
            st.flags = ('cmp', dst, src)
        else:
            wr(_alu(base, dst, src))
            st.flags = ('undef',)
        return ('next',)
    if op == 'cqo':
        rax = st.get('rax')
        st.set('rdx', ite(slt(rax, 0), M64, 0))
        return ('next',)
    if op == 'idiv_r':
        _idiv(st, _getr(st, a[0]))
        return ('next',)
    if op == 'idiv_m':
        _idiv(st, _load(st, a[0], a[1]))
        return ('next',)
    if op == 'jmp':
        return ('jmp', a[0])
    if op == 'jmpfixed':
        return ('jmp', a[0])
    if op == 'cjmp':
        return ('cjmp', cond_of(st, a[0]), a[1])
    if op == 'ijmp':
        return ('ijmp', _getr(st, a[0]))
    if op == 'lea_label':
        _setr(st, a[0], st.env.label_addr_for(a[1]))
        return ('next',)
    if op == 'push':
        st.spd -= 8
        st.stack_store(0, _getr(st, a[0]))
        return ('next',)
    if op == 'pop':
        v = st.stack_load(0)
        st.spd += 8
        _setr(st, a[0], v)
        return ('next',)
    if op == 'call':
        env = st.env
        if (env.sp_class + st.spd) % 16 != CALL_ALIGN:
            env.fault(f"call {a[0]} with sp = sp0{st.spd:+d} misaligned (sp0 mod 16 = {env.sp_class})", st.pc)
        st.events.append((a[0], st.get('rdi')))
        env.ncalls += 1
        for r in CALLER_SAVED:
            st.regs[r] = fresh(f"clob_{r}")
        st.flags = ('undef',)
        st.havoc_below_sp()
        return ('next',)
    if op == 'ret':
        return ('ret',)
    raise LoadError(f"x86-64: no semantics for {ins.raw}")

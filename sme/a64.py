"""AArch64 subset: parser for exactly the forms `axcut2aarch64::code::Code` can print, and their semantics.
Trusted base: this table.  Notes: ADD/SUB/MUL/... do not write flags (only CMP does); SDIV never traps
(x/0 = 0, MIN/-1 = MIN); SP must be 16-byte aligned at every SP-based access; BL overwrites X30."""
import re
import z3
from core import Ins, LoadError
from bv import *  # noqa

NAME = 'aarch64'
FIXED_JUMP_SIZE = 4
REGS = [f"X{i}" for i in range(0, 31)]
SP = 'SP'
CALLER_SAVED = [f"X{i}" for i in range(0, 19)] + ['X30']
CALLEE_SAVED = [f"X{i}" for i in range(19, 30)]
ARG_REGS = [f"X{i}" for i in range(0, 8)]
RET_REG = 'X0'
HEAP_REG, FREE_REG, TEMP_REGS = 'X0', 'X1', ['X2', 'X3']
CALL_ALIGN = 0
BODY_SP_CLASS = 0   # entry sp = 0 mod 16, six 16-byte pushes, 2048 spill bytes; re-derived by C13

_r = r'(X(?:[12]?\d|30)|XZR|SP)'
_imm = r'(-?\d+)'
_lab = r'([A-Za-z_.$][A-Za-z0-9_.$]*)'

PATTERNS = [
    (re.compile(rf'^(ADD|SUB|MUL|SDIV) {_r}, {_r}, {_r}$'), 'rrr'),
    (re.compile(rf'^(ADD|SUB) {_r}, {_r}, {_imm}$'), 'rri'),
    (re.compile(rf'^MSUB {_r}, {_r}, {_r}, {_r}$'), 'msub'),
    (re.compile(rf'^B {_lab}$'), 'b'),
    (re.compile(rf'^BR {_r}$'), 'br'),
    (re.compile(rf'^BL {_lab}$'), 'bl'),
    (re.compile(rf'^ADR {_r}, {_lab}$'), 'adr'),
    (re.compile(rf'^MOV {_r}, {_r}$'), 'mov'),
    (re.compile(rf'^(MOVZ|MOVN|MOVK) {_r}, {_imm}, LSL {_imm}$'), 'movw'),
    (re.compile(rf'^LDR {_r}, \[ {_r}, {_imm} \]$'), 'ldr'),
    (re.compile(rf'^STR {_r}, \[ {_r}, {_imm} \]$'), 'str'),
    (re.compile(rf'^LDP {_r}, {_r}, \[ {_r} \], {_imm}$'), 'ldp_post'),
    (re.compile(rf'^STP {_r}, {_r}, \[ {_r}, {_imm} \]!$'), 'stp_pre'),
    (re.compile(rf'^CMP {_r}, {_r}$'), 'cmp_rr'),
    (re.compile(rf'^CMP {_r}, {_imm}$'), 'cmp_ri'),
    (re.compile(rf'^(BEQ|BNE|BLT|BLE|BGT|BGE) {_lab}$'), 'bcc'),
    (re.compile(r'^RET$'), 'ret'),
    (re.compile(rf'^{_lab}:$'), 'label'),
]
DIRECTIVE = re.compile(r'^\.(text|global )')


def parse(lines):
    out, enc = [], []
    for raw in lines:
        for line in raw.split('\n'):
            s = line.strip()
            if not s or s.startswith('//') or DIRECTIVE.match(s):
                continue
            for pat, kind in PATTERNS:
                m = pat.match(s)
                if m:
                    break
            else:
                raise LoadError(f"aarch64: unparsable line {s!r}")
            g = m.groups()
            if kind == 'rrr':
                out.append(Ins(g[0].lower() + '_rrr', (g[1], g[2], g[3]), s))
            elif kind == 'rri':
                v = int(g[3])
                if not (0 <= v <= 4095 or (v % 4096 == 0 and 0 <= v <= 4095 << 12)):
                    enc.append(f"ADD/SUB immediate out of range: {s}")
                out.append(Ins(g[0].lower() + '_rri', (g[1], g[2], v), s))
            elif kind == 'msub':
                out.append(Ins('msub', g, s))
            elif kind == 'b':
                out.append(Ins('jmpfixed', (g[0],), s))
            elif kind == 'br':
                out.append(Ins('ijmp', (g[0],), s))
            elif kind == 'bl':
                out.append(Ins('call', (g[0],), s))
            elif kind == 'adr':
                out.append(Ins('lea_label', (g[0], g[1]), s))
            elif kind == 'mov':
                out.append(Ins('mov', (g[0], g[1]), s))
            elif kind == 'movw':
                v, sh = int(g[2]), int(g[3])
                if not (0 <= v <= 65535):
                    enc.append(f"16-bit immediate out of range: {s}")
                if sh not in (0, 16, 32, 48):
                    enc.append(f"shift not in 0/16/32/48: {s}")
                out.append(Ins(g[0].lower(), (g[1], v, sh), s))
            elif kind in ('ldr', 'str'):
                v = int(g[2])
                if not ((0 <= v <= 32760 and v % 8 == 0) or -256 <= v <= 255):
                    enc.append(f"load/store offset not encodable: {s}")
                out.append(Ins(kind, (g[0], g[1], v), s))
            elif kind in ('ldp_post', 'stp_pre'):
                v = int(g[3])
                if not (-512 <= v <= 504 and v % 8 == 0):
                    enc.append(f"pair offset not encodable: {s}")
                out.append(Ins(kind, (g[0], g[1], g[2], v), s))
            elif kind == 'cmp_rr':
                out.append(Ins('cmp_rr', (g[0], g[1]), s))
            elif kind == 'cmp_ri':
                v = int(g[1])
                if not (0 <= v <= 4095):
                    enc.append(f"CMP immediate out of range: {s}")
                out.append(Ins('cmp_ri', (g[0], v), s))
            elif kind == 'bcc':
                out.append(Ins('cjmp', (g[0], g[1]), s))
            elif kind == 'ret':
                out.append(Ins('ret', (), s))
            elif kind == 'label':
                out.append(Ins('label', (g[0],), s))
    return out, enc


def init_regs(st, prefix='r0_'):
    for r in REGS:
        st.regs[r] = z3.BitVec(prefix + r, 64)


def _get(st, r):
    if r == 'XZR':
        return 0
    if r == SP:
        raise LoadError("SP used as a data operand")
    return st.get(r)


def _set(st, r, v):
    if r == 'XZR':
        return
    if r == SP:
        raise LoadError("SP used as a data destination")
    st.set(r, v)


def _sp_check(st, what):
    env = st.env
    if (env.sp_class + st.spd) % 16 != 0:
        env.fault(f"{what}: SP-based access with SP = sp0{st.spd:+d} not 16-byte aligned (sp0 mod 16 = {env.sp_class})", st.pc)


def _load(st, base, off, what='load'):
    if base == SP:
        _sp_check(st, what)
        return st.stack_load(off)
    return st.heap_load(_get(st, base), off)


def _store(st, base, off, v, what='store'):
    if base == SP:
        _sp_check(st, what)
        st.stack_store(off, v)
    else:
        st.heap_store(_get(st, base), off, v)


def a64_sdiv(a, b):
    if is_c(a) and is_c(b):
        if b == 0:
            return 0
        if a == SIGN and b == M64:
            return SIGN
        return sdiv(a, b)
    return ite(eq(b, 0), 0, ite(b_and(eq(a, SIGN), eq(b, M64)), SIGN, sdiv(a, b)))


def cond_of(st, cc):
    f = st.flags
    if f is None or f[0] != 'cmp':
        return fresh_bool('staleflags')
    a, b = f[1], f[2]
    return {'BEQ': lambda: eq(a, b), 'BNE': lambda: ne(a, b), 'BLT': lambda: slt(a, b),
            'BLE': lambda: sle(a, b), 'BGT': lambda: slt(b, a), 'BGE': lambda: sle(b, a)}[cc]()


def step(st, ins):
    op, a = ins.op, ins.a
    if op == 'label':
        return ('next',)
    if op in ('add_rrr', 'sub_rrr', 'mul_rrr', 'sdiv_rrr'):
        if SP in a:
            raise LoadError(f"unsupported use of SP: {ins.raw}")
        x, y = _get(st, a[1]), _get(st, a[2])
        v = {'add_rrr': add, 'sub_rrr': sub, 'mul_rrr': mul, 'sdiv_rrr': a64_sdiv}[op](x, y)
        _set(st, a[0], v)
        return ('next',)
    if op in ('add_rri', 'sub_rri'):
        if a[0] == SP or a[1] == SP:
            if not (a[0] == SP and a[1] == SP):
                raise LoadError(f"unsupported use of SP: {ins.raw}")
            st.spd += a[2] if op == 'add_rri' else -a[2]
            return ('next',)
        x = _get(st, a[1])
        _set(st, a[0], add(x, a[2] & M64) if op == 'add_rri' else sub(x, a[2] & M64))
        return ('next',)
    if op == 'msub':
        # Xd = Xa - Xn * Xm
        _set(st, a[0], sub(_get(st, a[3]), mul(_get(st, a[1]), _get(st, a[2]))))
        return ('next',)
    if op == 'mov':
        _set(st, a[0], _get(st, a[1]))
        return ('next',)
    if op == 'movz':
        _set(st, a[0], (a[1] << a[2]) & M64)
        return ('next',)
    if op == 'movn':
        _set(st, a[0], (~(a[1] << a[2])) & M64)
        return ('next',)
    if op == 'movk':
        old = _get(st, a[0])
        mask = (0xFFFF << a[2]) & M64
        ins_v = (a[1] << a[2]) & M64
        if is_c(old):
            _set(st, a[0], (old & ~mask & M64) | ins_v)
        else:
            _set(st, a[0], (old & z3.BitVecVal(~mask & M64, 64)) | z3.BitVecVal(ins_v, 64))
        return ('next',)
    if op == 'ldr':
        _set(st, a[0], _load(st, a[1], a[2], ins.raw))
        return ('next',)
    if op == 'str':
        _store(st, a[1], a[2], _get(st, a[0]), ins.raw)
        return ('next',)
    if op == 'stp_pre':
        if a[2] != SP:
            raise LoadError(f"STP pre-index on a non-SP base: {ins.raw}")
        st.spd += a[3]
        _sp_check(st, ins.raw)
        st.stack_store(0, _get(st, a[0]))
        st.stack_store(8, _get(st, a[1]))
        return ('next',)
    if op == 'ldp_post':
        if a[2] != SP:
            raise LoadError(f"LDP post-index on a non-SP base: {ins.raw}")
        _sp_check(st, ins.raw)
        v0, v1 = st.stack_load(0), st.stack_load(8)
        _set(st, a[0], v0)
        _set(st, a[1], v1)
        st.spd += a[3]
        return ('next',)
    if op == 'cmp_rr':
        st.flags = ('cmp', _get(st, a[0]), _get(st, a[1]))
        return ('next',)
    if op == 'cmp_ri':
        st.flags = ('cmp', _get(st, a[0]), a[1] & M64)
        return ('next',)
    if op == 'jmpfixed':
        return ('jmp', a[0])
    if op == 'cjmp':
        return ('cjmp', cond_of(st, a[0]), a[1])
    if op == 'ijmp':
        return ('ijmp', _get(st, a[0]))
    if op == 'lea_label':
        _set(st, a[0], st.env.label_addr_for(a[1]))
        return ('next',)
    if op == 'call':
        env = st.env
        if (env.sp_class + st.spd) % 16 != CALL_ALIGN:
            env.fault(f"BL {a[0]} with sp = sp0{st.spd:+d} misaligned (sp0 mod 16 = {env.sp_class})", st.pc)
        st.events.append((a[0], st.get('X0')))
        env.ncalls += 1
        for r in CALLER_SAVED:
            st.regs[r] = fresh(f"clob_{r}")
        st.flags = ('undef',)
        st.havoc_below_sp()
        return ('next',)
    if op == 'ret':
        st.aux['<target>'] = st.get('X30')
        return ('ret',)
    raise LoadError(f"aarch64: no semantics for {ins.raw}")

"""Discharge the queries of an Obligation with z3 (python API, one context per worker process)."""
import time
import z3
from bv import *  # noqa

UNSAT, SAT, UNKNOWN = 'unsat', 'sat', 'unknown'


class QResult:
    def __init__(self, name, expect, verdict, secs, model=None):
        self.name, self.expect, self.verdict, self.secs, self.model = name, expect, verdict, secs, model

    @property
    def ok(self):
        return self.verdict == self.expect

    @property
    def inconclusive(self):
        return self.verdict == UNKNOWN

    def to_json(self):
        return {'q': self.name, 'expect': self.expect, 'verdict': self.verdict, 's': round(self.secs, 3)}


def _check_once(assume, extra, timeout_ms, seed):
    s = z3.SolverFor('QF_BV')
    s.set('timeout', int(timeout_ms))
    if seed:
        s.set('random_seed', seed)
    for a in assume:
        s.add(a)
    for e in extra:
        s.add(e)
    t = time.time()
    r = s.check()
    dt = time.time() - t
    if r == z3.sat:
        return SAT, dt, s.model()
    if r == z3.unsat:
        return UNSAT, dt, None
    return UNKNOWN, dt, None


def _check(assume, extra, timeout_ms):
    """a query that comes back unknown is retried twice with other solver seeds (the solver's run time on one query varies
    with the seed and with the order of assertions by orders of magnitude; a verdict of any attempt is a verdict)"""
    total = 0.0
    for seed in (0, 7, 23):
        v, dt, m = _check_once(assume, extra, timeout_ms, seed)
        total += dt
        if v != UNKNOWN:
            return v, total, m
    return UNKNOWN, total, None


def _check_sat(assume, extra, timeout_ms, hints):
    """a query expected satisfiable: first with the under-approximating hints (sound for SAT only), then in full"""
    if hints:
        v, dt, m = _check_once(assume, list(extra) + list(hints), min(timeout_ms, 20000), 0)
        if v == SAT:
            return v, dt, m
        v2, dt2, m2 = _check(assume, extra, timeout_ms)
        return v2, dt + dt2, m2
    return _check(assume, extra, timeout_ms)


def discharge(ob, timeout_ms=120000, stop_at_first=True, group_goals=True, case_mode=False):
    """returns list of QResult.  Queries:
       fault          : assume /\\ fault                       expect unsat
       unexpected:<e> : assume /\\ pc_e                        expect unsat
       reach:<e>      : assume /\\ pc_e                        expect sat   (vacuity twin)
       goal:<e>:<g>   : assume /\\ pc_e /\\ not g               expect unsat
    """
    res = []
    A = list(ob.assume)
    # vacuity of the precondition itself
    hints = getattr(ob, 'sat_hints', None) or []
    v, dt, m = _check_sat(A, [], timeout_ms, hints)
    if case_mode and v == UNSAT:
        # one case of an exhaustive split may be empty; vacuity is judged over the union of the cases
        res.append(QResult('pre.satisfiable', UNSAT, v, dt))
        return res
    res.append(QResult('pre.satisfiable', SAT, v, dt))
    if v != SAT:
        return res
    if ob.fault is not False:
        v, dt, m = _check(A, [bb(ob.fault)], timeout_ms)
        res.append(QResult('fault', UNSAT, v, dt, m))
        if v == SAT and stop_at_first:
            return res
    for lab, pc in ob.unexpected.items():
        if pc is False:
            continue
        v, dt, m = _check(A, [bb(pc)], timeout_ms)
        res.append(QResult(f'unexpected:{lab}', UNSAT, v, dt, m))
        if v == SAT and stop_at_first:
            return res
    for lab, (pc, goals) in ob.exits.items():
        v, dt, m = _check_sat(A, [bb(pc)], timeout_ms, hints)
        if case_mode and v == UNSAT:
            res.append(QResult(f'reach:{lab}', UNSAT, v, dt))
            continue
        res.append(QResult(f'reach:{lab}', SAT, v, dt, m))
        if v != SAT:
            if stop_at_first:
                return res
            continue
        triv = [(n, gl) for n, gl in goals if z3.is_false(z3.simplify(gl))]
        if triv:
            res.append(QResult(f'goal:{lab}:{triv[0][0]}', UNSAT, SAT, 0.0, m))
            if stop_at_first:
                return res
        goals = [(n, gl) for n, gl in goals if not z3.is_true(z3.simplify(gl))]
        if group_goals and goals:
            # first try all goals at once; only on failure look for the individual culprit
            v, dt, m = _check(A, [bb(pc), z3.Not(z3.And(*[gl for _, gl in goals]))], timeout_ms)
            if v == UNSAT:
                res.append(QResult(f'goal:{lab}:*{len(goals)}', UNSAT, v, dt))
                continue
            if v == SAT:
                # identify one violated goal from the model
                bad = None
                for n, gl in goals:
                    if z3.is_false(m.eval(gl, model_completion=True)):
                        bad = n
                        break
                res.append(QResult(f'goal:{lab}:{bad or "?"}', UNSAT, SAT, dt, m))
                if stop_at_first:
                    return res
                continue
            # unknown on the grouped query: fall through to individual goals
        for n, gl in goals:
            v, dt, m = _check(A, [bb(pc), z3.Not(gl)], timeout_ms)
            res.append(QResult(f'goal:{lab}:{n}', UNSAT, v, dt, m))
            if v == SAT and stop_at_first:
                return res
    return res

"""SME core: machine state, DAG-merging executor, block-mode heap, layout model for computed jumps.

A *fragment* is the printed code of one AxCut statement (obtained from the real code generator via
E0).  Every jump inside a fragment is forward, so the executor walks the text once, merging the
states that arrive at an instruction with ite on their path conditions: one fragment => one formula.
"""
import sys, os
sys.path.insert(0, os.path.join(os.path.dirname(__file__), '..', 'lib'))
import z3
from bv import *  # noqa


class LoadError(Exception):
    """the text is outside the modelled subset / violates a structural rule; the obligation fails"""


class Ins:
    __slots__ = ('op', 'a', 'raw', 'idx')

    def __init__(self, op, a, raw):
        self.op = op
        self.a = a
        self.raw = raw
        self.idx = None

    def __repr__(self):
        return f"<{self.idx}:{self.raw.strip()}>"


class Env:
    """things shared by all states of one symbolic run"""

    def __init__(self, isa, N, stack_lo_ok=0, stack_hi=2048, sp_class=8, H=None):
        self.isa = isa
        self.N = N
        self.H = (0x100000 if __import__('os').environ.get('SME_CONCRETE_H','1')=='1' else z3.BitVec('H', 64)) if H is None else H
        self.faults = []          # (reason, cond)
        self.assumes = []         # facts about the environment (layout model etc.)
        self.stack_hi = stack_hi  # exclusive upper bound (relative to sp0) of the frame we may touch
        self.sp_class = sp_class  # sp0 mod 16
        self._stack_init = {}
        self._label_addr = {}
        self._decomp = {}
        self.notes = []
        self.ncalls = 0
        self.canon = {}

    def label_addr_for(self, name):
        return self.label_addr(self.canon.get(name, name))

    def baddr(self, b):
        return add(self.H, 64 * b)

    def fault(self, reason, cond):
        if cond is False:
            return
        self.faults.append((reason, cond))

    def fault_term(self):
        return b_or(*[c for _, c in self.faults])

    def stack_init(self, off):
        if off not in self._stack_init:
            self._stack_init[off] = z3.BitVec(f"stk0_{off}", 64)
        return self._stack_init[off]

    def label_addr(self, key):
        if key not in self._label_addr:
            self._label_addr[key] = z3.BitVec(f"A_{key}", 64)
        return self._label_addr[key]

    def decomp(self, base):
        """conditions base == address of block b, for every block of the universe"""
        k = base if is_c(base) else base.get_id()
        if k not in self._decomp:
            self._decomp[k] = (base, [eq(base, self.baddr(b)) for b in range(self.N)])
        return self._decomp[k][1]


class State:
    def __init__(self, env):
        self.env = env
        self.regs = {}
        self.spd = 0
        self.stack = {}
        self.mem = None
        self.flags = None
        self.pc = True
        self.events = []
        self.aux = {}
        self.dead_below = None   # offsets (rel. sp0) below this were havocked by an external call

    def copy(self):
        s = State(self.env)
        s.regs = dict(self.regs)
        s.spd = self.spd
        s.stack = dict(self.stack)
        s.mem = [list(r) for r in self.mem] if self.mem is not None else None
        s.flags = self.flags
        s.pc = self.pc
        s.events = list(self.events)
        s.aux = dict(self.aux)
        s.dead_below = self.dead_below
        return s

    def havoc_below_sp(self):
        for o in list(self.stack):
            if o < self.spd:
                del self.stack[o]
        self.dead_below = self.spd if self.dead_below is None else max(self.dead_below, self.spd)

    # ---- registers
    def get(self, r):
        if r not in self.regs:
            raise LoadError(f"unknown register {r}")
        return self.regs[r]

    def set(self, r, v):
        if r not in self.regs:
            raise LoadError(f"unknown register {r}")
        self.regs[r] = norm(v)

    # ---- stack (sp-relative accesses with concrete displacement)
    def _stack_check(self, off, what, size=8):
        o = self.spd + off
        if o % 8 != 0:
            self.env.fault(f"unaligned stack {what} at sp0{o:+d}", self.pc)
        if off < 0:
            self.env.fault(f"stack {what} below sp ({off})", self.pc)
        if o + size > self.env.stack_hi:
            self.env.fault(f"stack {what} above frame (sp0{o:+d})", self.pc)
        return o

    def stack_load(self, off):
        o = self._stack_check(off, 'load')
        if o in self.stack:
            return self.stack[o]
        if self.dead_below is not None and o < self.dead_below:
            self.stack[o] = fresh('dead_stack')
            return self.stack[o]
        return self.env.stack_init(o)

    def stack_store(self, off, v):
        o = self._stack_check(off, 'store')
        self.stack[o] = norm(v)

    # ---- heap (block mode)
    def heap_load(self, base, off):
        env = self.env
        if off % 8 != 0 or not (0 <= off < 64):
            env.fault(f"heap load at offset {off}", self.pc)
            return fresh('badload')
        w = off // 8
        conds = env.decomp(base)
        env.fault("heap load through a non-block pointer", b_and(self.pc, b_not(b_or(*conds))))
        val = fresh('oob')
        for b in range(env.N - 1, -1, -1):
            val = ite(conds[b], self.mem[b][w], val)
        return val

    def heap_store(self, base, off, v):
        env = self.env
        if off % 8 != 0 or not (0 <= off < 64):
            env.fault(f"heap store at offset {off}", self.pc)
            return
        w = off // 8
        v = norm(v)
        conds = env.decomp(base)
        env.fault("heap store through a non-block pointer", b_and(self.pc, b_not(b_or(*conds))))
        for b in range(env.N):
            self.mem[b][w] = ite(conds[b], v, self.mem[b][w])


def merge(states):
    if len(states) == 1:
        return states[0]
    env = states[0].env
    out = State(env)
    spd = states[0].spd
    nev = len(states[0].events)
    for s in states:
        if s.spd != spd:
            raise LoadError("stack pointer differs between merging paths")
        if len(s.events) != nev:
            raise LoadError("event count differs between merging paths")
    out.spd = spd
    out.pc = b_or(*[s.pc for s in states])
    db = [s.dead_below for s in states if s.dead_below is not None]
    out.dead_below = max(db) if db else None

    def m(vals):
        v = vals[-1]
        for s, x in zip(reversed(states[:-1]), reversed(vals[:-1])):
            v = ite(s.pc, x, v)
        return v
    for r in states[0].regs:
        out.regs[r] = m([s.regs[r] for s in states])
    keys = set()
    for s in states:
        keys |= set(s.stack)
    for k in keys:
        out.stack[k] = m([s.stack[k] if k in s.stack else
                          (fresh('dead_stack') if s.dead_below is not None and k < s.dead_below else env.stack_init(k))
                          for s in states])
    if states[0].mem is not None:
        N = len(states[0].mem)
        out.mem = [[m([s.mem[b][w] for s in states]) for w in range(8)] for b in range(N)]
    f0 = states[0].flags
    out.flags = f0 if all(s.flags is f0 for s in states) else ('undef',)
    out.events = [tuple([states[0].events[i][0]] + [m([s.events[i][j] for s in states])
                                                     for j in range(1, len(states[0].events[i]))])
                  for i in range(nev)]
    for s in states:
        if s.events and [e[0] for e in s.events] != [e[0] for e in states[0].events]:
            raise LoadError("event kinds differ between merging paths")
    akeys = set()
    for s in states:
        akeys |= set(s.aux)
    for k in akeys:
        vals = [s.aux.get(k) for s in states]
        if any(v is None for v in vals):
            continue
        out.aux[k] = m(vals)
    return out


class Program:
    """parsed text + label table + layout model"""

    def __init__(self, isa, lines):
        self.isa = isa
        self.ins, self.enc_errors = isa.parse(lines)
        for i, x in enumerate(self.ins):
            x.idx = i
        self.labels = {}
        self.dups = []
        for x in self.ins:
            if x.op == 'label':
                if x.a[0] in self.labels:
                    self.dups.append(x.a[0])
                self.labels[x.a[0]] = x.idx
        # canonical label per position: consecutive labels (only labels/comments between) share an address
        self.canon = {}
        prev = None
        for x in self.ins:
            if x.op == 'label':
                if prev is None:
                    prev = x.a[0]
                self.canon[x.a[0]] = prev
            else:
                prev = None
        # tables: label followed by k >= 1 fixed-size jumps
        self.tables = {}
        for name, idx in self.labels.items():
            ents = []
            j = idx + 1
            while j < len(self.ins) and self.ins[j].op == 'jmpfixed':
                ents.append(j)
                j += 1
            if ents:
                self.tables[name] = ents

    def referenced_labels(self):
        refs = set()
        for x in self.ins:
            if x.op in ('jmp', 'jmpfixed', 'cjmp', 'lea_label'):
                refs.add(x.a[-1] if x.op != 'lea_label' else x.a[1])
        return refs


def run(prog, st0, entry=0, entry_points=None):
    """Execute from instruction index `entry` (or from several (idx, state) entry points).
    Returns exits: dict label -> merged State ('<ret>', '<computed>', '<end>' are pseudo labels)."""
    isa = prog.isa
    env = st0.env if st0 is not None else entry_points[0][1].env
    env.canon = prog.canon
    pending = {}
    if entry_points is None:
        entry_points = [(entry, st0)]
    for idx, s in entry_points:
        pending.setdefault(idx, []).append(s)
    start = min(pending)
    exits = {}
    cur = None

    def route(label, s, i):
        if s.pc is False:
            return
        if label in prog.labels:
            t = prog.labels[label]
            if t <= i:
                raise LoadError(f"backward jump to {label}")
            pending.setdefault(t, []).append(s)
        else:
            exits.setdefault(label, []).append(s)

    for i in range(start, len(prog.ins)):
        inc = pending.pop(i, [])
        if cur is not None:
            inc.append(cur)
        if not inc:
            cur = None
            continue
        cur = merge(inc)
        ins = prog.ins[i]
        eff = isa.step(cur, ins)
        k = eff[0]
        if k == 'next':
            continue
        if k == 'jmp':
            route(eff[1], cur, i)
            cur = None
        elif k == 'cjmp':
            c = eff[1]
            tk = cur.copy()
            tk.pc = b_and(cur.pc, c)
            cur.pc = b_and(cur.pc, b_not(c))
            route(eff[2], tk, i)
            if cur.pc is False:
                cur = None
        elif k == 'ijmp':
            t = eff[1]
            matched = []
            # candidates: table entries and label positions of this text (forward only)
            cands = []
            for name, ents in prog.tables.items():
                base = env.label_addr(prog.canon[name])
                for j, idx in enumerate(ents):
                    cands.append((add(base, isa.FIXED_JUMP_SIZE * j), idx, f"{name}[{j}]"))
            table_canon = {prog.canon[nm] for nm in prog.tables}
            for name, idx in prog.labels.items():
                if prog.canon[name] != name or name in table_canon:
                    continue
                cands.append((env.label_addr(name), idx, name))
            for addr, idx, what in cands:
                if idx <= i:
                    continue
                c = eq(t, addr)
                if c is False:
                    continue
                s = cur.copy()
                s.pc = b_and(cur.pc, c)
                if s.pc is not False:
                    pending.setdefault(idx, []).append(s)
                matched.append(c)
            rest = cur
            rest.pc = b_and(cur.pc, b_not(b_or(*matched)))
            rest.aux['<target>'] = t
            if rest.pc is not False:
                exits.setdefault('<computed>', []).append(rest)
            cur = None
        elif k == 'ret':
            exits.setdefault('<ret>', []).append(cur)
            cur = None
        else:
            raise LoadError(f"unknown effect {k}")
    if cur is not None:
        exits.setdefault('<end>', []).append(cur)
    if pending:
        raise LoadError("pending states past the end of text")
    return {k: merge(v) for k, v in exits.items()}


def layout_assumptions(prog, env):
    """distinct, non-null code addresses for distinct address points of this text"""
    pts = {}
    for name, ents in prog.tables.items():
        c = prog.canon[name]
        for j in range(len(ents)):
            pts[(c, j)] = add(env.label_addr(c), prog.isa.FIXED_JUMP_SIZE * j)
    for name in prog.labels:
        c = prog.canon[name]
        pts.setdefault((c, 0), env.label_addr(c))
    pts = list(pts.values())
    out = []
    if len(pts) > 1:
        out.append(z3.Distinct(*[bv(p) for p in pts]))
    for p in pts:
        out.append(bv(p) != 0)
    return out

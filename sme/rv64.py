"""RV64 subset: parser for exactly the forms `axcut2rv64::code::Code` prints (Display), and their semantics,
reading LW/SW as 64-bit accesses as property C08 states.  Trusted base: this table.
DIV/REM never trap (x/0 = -1, x%0 = x, MIN/-1 = MIN, MIN%-1 = 0)."""
import re
import z3
from core import Ins, LoadError
from bv import *  # noqa

NAME = 'rv64'
FIXED_JUMP_SIZE = 4
REGS = [f"X{i}" for i in range(1, 32)]
SP = None
CALLER_SAVED = []
CALLEE_SAVED = []
ARG_REGS = []
RET_REG = 'X10'
HEAP_REG, FREE_REG, TEMP_REGS = 'X2', 'X3', ['X1']
BODY_SP_CLASS = 0

_r = r'(X(?:[12]?\d|3[01]))'
_imm = r'(-?\d+)'
_lab = r'([A-Za-z_.$][A-Za-z0-9_.$]*)'

PATTERNS = [
    (re.compile(rf'^(ADD|SUB|MUL|DIV|REM) {_r} {_r} {_r}$'), 'rrr'),
    (re.compile(rf'^ADD {_r} {_r} {_imm}$'), 'addi'),
    (re.compile(rf'^JAL {_r} {_lab}$'), 'jal'),
    (re.compile(rf'^JALR {_r} {_r} {_imm}$'), 'jalr'),
    (re.compile(rf'^LA {_r} {_lab}$'), 'la'),
    (re.compile(rf'^LI {_r} {_imm}$'), 'li'),
    (re.compile(rf'^MV {_r} {_r}$'), 'mv'),
    (re.compile(rf'^LW {_r} {_imm} {_r}$'), 'lw'),
    (re.compile(rf'^SW {_r} {_imm} {_r}$'), 'sw'),
    (re.compile(rf'^(BEQ|BNE|BLT|BLE|BGT|BGE) {_r} {_r} {_lab}$'), 'bcc'),
    (re.compile(rf'^{_lab}:$'), 'label'),
]


def parse(lines):
    out, enc = [], []
    for raw in lines:
        for line in raw.split('\n'):
            s = line.strip()
            if s.startswith('// actual code') and len(s) > len('// actual code'):
                s = s[len('// actual code'):].strip()   # into_rv64_routine glues the first line to this comment
            if not s or s.startswith('//'):
                continue
            for pat, kind in PATTERNS:
                m = pat.match(s)
                if m:
                    break
            else:
                raise LoadError(f"rv64: unparsable line {s!r}")
            g = m.groups()
            if kind == 'rrr':
                out.append(Ins(g[0].lower(), (g[1], g[2], g[3]), s))
            elif kind == 'addi':
                v = int(g[2])
                if not (-2048 <= v <= 2047):
                    enc.append(f"ADDI immediate out of 12-bit range: {s}")
                out.append(Ins('addi', (g[0], g[1], v), s))
            elif kind == 'jal':
                if g[0] != 'X0':
                    raise LoadError(f"rv64: JAL with a link register: {s}")
                out.append(Ins('jmpfixed', (g[1],), s))
            elif kind == 'jalr':
                if g[0] != 'X0' or int(g[2]) != 0:
                    raise LoadError(f"rv64: JALR form outside the subset: {s}")
                out.append(Ins('ijmp', (g[1],), s))
            elif kind == 'la':
                out.append(Ins('lea_label', (g[0], g[1]), s))
            elif kind == 'li':
                out.append(Ins('li', (g[0], int(g[1])), s))
            elif kind == 'mv':
                out.append(Ins('mv', (g[0], g[1]), s))
            elif kind in ('lw', 'sw'):
                v = int(g[1])
                if not (-2048 <= v <= 2047):
                    enc.append(f"load/store offset out of 12-bit range: {s}")
                out.append(Ins(kind, (g[0], v, g[2]), s))
            elif kind == 'bcc':
                out.append(Ins('cjmp', (g[0], g[1], g[2], g[3]), s))
            elif kind == 'label':
                out.append(Ins('label', (g[0],), s))
    return out, enc


def init_regs(st, prefix='r0_'):
    for r in REGS:
        st.regs[r] = z3.BitVec(prefix + r, 64)


def _get(st, r):
    if r == 'X0':
        return 0
    return st.get(r)


def _set(st, r, v):
    if r == 'X0':
        return
    st.set(r, v)


def rv_div(a, b):
    return ite(eq(b, 0), M64, ite(b_and(eq(a, SIGN), eq(b, M64)), SIGN, sdiv(a, b)))


def rv_rem(a, b):
    return ite(eq(b, 0), a, ite(b_and(eq(a, SIGN), eq(b, M64)), 0, srem(a, b)))


def step(st, ins):
    op, a = ins.op, ins.a
    if op == 'label':
        return ('next',)
    if op in ('add', 'sub', 'mul', 'div', 'rem'):
        x, y = _get(st, a[1]), _get(st, a[2])
        _set(st, a[0], {'add': add, 'sub': sub, 'mul': mul, 'div': rv_div, 'rem': rv_rem}[op](x, y))
        return ('next',)
    if op == 'addi':
        _set(st, a[0], add(_get(st, a[1]), a[2] & M64))
        return ('next',)
    if op == 'li':
        _set(st, a[0], a[1] & M64)
        return ('next',)
    if op == 'mv':
        _set(st, a[0], _get(st, a[1]))
        return ('next',)
    if op == 'lw':
        _set(st, a[0], st.heap_load(_get(st, a[2]), a[1]))
        return ('next',)
    if op == 'sw':
        st.heap_store(_get(st, a[2]), a[1], _get(st, a[0]))
        return ('next',)
    if op == 'jmpfixed':
        return ('jmp', a[0])
    if op == 'ijmp':
        return ('ijmp', _get(st, a[0]))
    if op == 'lea_label':
        _set(st, a[0], st.env.label_addr_for(a[1]))
        return ('next',)
    if op == 'cjmp':
        x, y = _get(st, a[1]), _get(st, a[2])
        c = {'BEQ': lambda: eq(x, y), 'BNE': lambda: ne(x, y), 'BLT': lambda: slt(x, y),
             'BLE': lambda: sle(x, y), 'BGT': lambda: slt(y, x), 'BGE': lambda: sle(y, x)}[a[0]]()
        return ('cjmp', c, a[3])
    raise LoadError(f"rv64: no semantics for {ins.raw}")

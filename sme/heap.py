"""E2 - representation relation and heap invariant I over a universe of N 64-byte blocks (pure QF_BV).

Block layout (as in */src/memory.rs): word 0 = header (reference count - 1 if in use, link if on a
free list); words 2+2f / 3+2f = first / second slot of field f (f = 0..2).  Objects with more than
three fields chain through the first slot of field 2.

Ghost state of a block: USED / LIN (linear free list, from the heap register) / DEF (deferred free
list, from the free register, ending at the frontier) / FRESH (index >= frontier, all zero).
Field layout ghosts: EXT (first slot 0), PTR (0 or a USED non-tail block), LINK (a USED tail block).
"""
import z3
from bv import *  # noqa

USED, LIN, DEF, FRESH = 0, 1, 2, 3
L_EXT, L_PTR, L_LINK = 0, 1, 2
W = 4          # width of ghost indices / counters (N <= 8)
CW = 8         # width of reference counters in the ghost arithmetic


def wv(v):
    return z3.BitVecVal(v, W)


def bool2bv(c, w=CW):
    if c is True:
        return z3.BitVecVal(1, w)
    if c is False:
        return z3.BitVecVal(0, w)
    return z3.If(c, z3.BitVecVal(1, w), z3.BitVecVal(0, w))


def bsum(conds, w=CW):
    t = z3.BitVecVal(0, w)
    for c in conds:
        if c is False:
            continue
        t = t + bool2bv(c, w)
    return t


def idx_addr(env, idx):
    """address of the block with (W-bit) index term idx"""
    return bv(env.H) + (z3.ZeroExt(64 - W, idx) << 6)


class Ghost:
    pass


def pre_ghost(env, prefix='g'):
    N = env.N
    g = Ghost()
    g.st = [z3.BitVec(f"{prefix}_st{b}", 2) for b in range(N)]
    g.lpos = [z3.BitVec(f"{prefix}_lp{b}", W) for b in range(N)]
    g.dpos = [z3.BitVec(f"{prefix}_dp{b}", W) for b in range(N)]
    g.nLIN = z3.BitVec(f"{prefix}_nLIN", W)
    g.nDEF = z3.BitVec(f"{prefix}_nDEF", W)
    g.F = z3.BitVec(f"{prefix}_F", W)
    g.lay = [[z3.BitVec(f"{prefix}_lay{b}_{f}", 2) for f in range(3)] for b in range(N)]
    g.tail = [z3.Bool(f"{prefix}_tail{b}") for b in range(N)]
    g.used = [g.st[b] == USED for b in range(N)]
    g.lin = [g.st[b] == LIN for b in range(N)]
    g.deff = [g.st[b] == DEF for b in range(N)]
    g.live = [z3.Or(g.st[b] == USED, g.st[b] == DEF) for b in range(N)]
    # FC[b]: number of references to block b from first slots of fields of live blocks (named once, so that
    # the post-state count can be expressed as FC + delta instead of a second full sum)
    g.FC = [z3.BitVec(f"{prefix}_FC{b}", CW) for b in range(N)]
    return g


def field_count(env, mem, live, b):
    A = bv(env.baddr(b))
    refs = []
    for b2 in range(env.N):
        for f in range(3):
            refs.append(z3.And(bb(live[b2]), bv(mem[b2][2 + 2 * f]) == A))
    return bsum(refs)


def field_count_delta(env, mem0, live0, mem1, live1, FC, b):
    """FC[b] + sum over the reference sources that changed structurally (post - pre)"""
    A = bv(env.baddr(b))
    t = FC[b]
    for b2 in range(env.N):
        for f in range(3):
            w = 2 + 2 * f
            l0, l1 = bb(live0[b2]), bb(live1[b2])
            if same(mem0[b2][w], mem1[b2][w]) and l0.eq(l1):
                continue
            t = t + bool2bv(z3.And(l1, bv(mem1[b2][w]) == A)) - bool2bv(z3.And(l0, bv(mem0[b2][w]) == A))
    return t


def inv_common(env, mem, roots, used, deff, lay, tail, fc):
    """items 4-6 of the invariant; fc[b] = number of references to b from fields of live blocks;
    returns [(name, term)]"""
    N = env.N
    out = []
    A = [bv(env.baddr(b)) for b in range(N)]

    def points_to(p, want_tail):
        return z3.Or(*[z3.And(bv(p) == A[b2], bb(used[b2]), bb(tail[b2]) if want_tail else z3.Not(bb(tail[b2])))
                       for b2 in range(N)])
    for b in range(N):
        live = z3.Or(bb(used[b]), bb(deff[b]))
        for f in range(3):
            p = bv(mem[b][2 + 2 * f])
            l = lay[b][f]
            cs = [l != 3,
                  z3.Implies(l == L_EXT, p == 0),
                  z3.Implies(l == L_PTR, z3.Or(p == 0, points_to(p, False))),
                  z3.Implies(l == L_LINK, points_to(p, True))]
            if f != 2:
                cs.append(l != L_LINK)
            out.append((f"field[{b}][{f}]", z3.Implies(live, z3.And(*cs))))
    for i, r in enumerate(roots):
        out.append((f"root[{i}]", z3.Or(bv(r) == 0, points_to(r, False))))
    for b in range(N):
        cnt = bsum([bv(r) == A[b] for r in roots]) + fc[b]
        hdr = bv(mem[b][0])
        out.append((f"refcount[{b}]", z3.Implies(bb(used[b]), z3.And(cnt != 0, hdr == z3.ZeroExt(64 - CW, cnt - 1)))))
        out.append((f"tail[{b}]", z3.Implies(bb(tail[b]), z3.And(bb(used[b]), cnt == 1))))
    return out


def pre_inv(env, mem, heapreg, freereg, roots, g):
    """the invariant I over a pre-state with free ghost variables; returns a list of terms"""
    N = env.N
    A = [bv(env.baddr(b)) for b in range(N)]
    cs = []
    F = g.F
    cs.append(z3.ULE(wv(1), F))
    cs.append(z3.ULE(F, wv(N - 1)))
    for b in range(N):
        cs.append((g.st[b] == FRESH) == z3.ULE(F, wv(b)))
        cs.append(z3.Implies(g.st[b] == FRESH, z3.And(*[bv(mem[b][w]) == 0 for w in range(8)])))
    # linear list
    cs.append(g.nLIN == bsum(g.lin, W))
    cs.append(z3.ULE(wv(1), g.nLIN))
    cs.append(z3.Or(*[z3.And(g.lin[b], g.lpos[b] == g.nLIN - 1, bv(heapreg) == A[b]) for b in range(N)]))
    for b in range(N):
        cs.append(z3.Implies(g.lin[b], z3.ULT(g.lpos[b], g.nLIN)))
        for b2 in range(b + 1, N):
            cs.append(z3.Implies(z3.And(g.lin[b], g.lin[b2]), g.lpos[b] != g.lpos[b2]))
        cs.append(z3.Implies(g.lin[b], z3.If(g.lpos[b] == 0, bv(mem[b][0]) == 0,
                                             z3.Or(*[z3.And(g.lin[b2], g.lpos[b2] == g.lpos[b] - 1, bv(mem[b][0]) == A[b2])
                                                     for b2 in range(N) if b2 != b]))))
    # deferred list
    FA = idx_addr(env, F)
    cs.append(g.nDEF == bsum(g.deff, W))
    cs.append(z3.If(g.nDEF == 0, bv(freereg) == FA,
                    z3.Or(*[z3.And(g.deff[b], g.dpos[b] == g.nDEF - 1, bv(freereg) == A[b]) for b in range(N)])))
    for b in range(N):
        cs.append(z3.Implies(g.deff[b], z3.ULT(g.dpos[b], g.nDEF)))
        for b2 in range(b + 1, N):
            cs.append(z3.Implies(z3.And(g.deff[b], g.deff[b2]), g.dpos[b] != g.dpos[b2]))
        cs.append(z3.Implies(g.deff[b], z3.If(g.dpos[b] == 0, bv(mem[b][0]) == FA,
                                              z3.Or(*[z3.And(g.deff[b2], g.dpos[b2] == g.dpos[b] - 1, bv(mem[b][0]) == A[b2])
                                                      for b2 in range(N) if b2 != b]))))
    for b in range(N):
        cs.append(g.FC[b] == field_count(env, mem, g.live, b))
    cs += [t for _, t in inv_common(env, mem, roots, g.used, g.deff, g.lay, g.tail, g.FC)]
    return cs


def select_word(env, ptr, mem, w, default=0):
    """mem[block(ptr)][w] as an ite chain"""
    v = default
    for b in range(env.N - 1, -1, -1):
        v = ite(eq(ptr, env.baddr(b)), mem[b][w], v)
    return v


def post_ghost(env, mem, heapreg, freereg, F_pre):
    """Reconstruct the ghost state of a post-state from the machine state alone (two list walks);
    returns a Ghost with lin/deff/used/F/nLIN/nDEF and `ok`, a list of named well-formedness terms."""
    N = env.N
    A = [bv(env.baddr(b)) for b in range(N)]
    g = Ghost()
    ok = []
    # linear walk
    cur = bv(heapreg)
    ok.append(("lin.nonempty", cur != 0))
    lin = [[] for _ in range(N)]
    for s in range(N):
        at = [cur == A[b] for b in range(N)]
        ok.append((f"lin.valid[{s}]", z3.Or(cur == 0, *at)))
        for b in range(N):
            lin[b].append(at[b])
        nxt = z3.BitVecVal(0, 64)
        for b in range(N - 1, -1, -1):
            nxt = z3.If(at[b], bv(mem[b][0]), nxt)
        cur = nxt
    ok.append(("lin.terminates", cur == 0))
    g.lin = [z3.Or(*lin[b]) for b in range(N)]
    # deferred walk: ends at the first block that was fresh before (index >= F_pre); that block is the new frontier
    d = bv(freereg)
    alive = z3.BoolVal(True)
    deff = [[] for _ in range(N)]
    Fp = wv(0)
    found = []
    chain = []
    for s in range(N):
        at = [d == A[b] for b in range(N)]
        stop = z3.Or(*[z3.And(at[b], z3.ULE(F_pre, wv(b))) for b in range(N)])
        ok.append((f"def.valid[{s}]", z3.Implies(alive, z3.Or(*at))))
        idx = wv(0)
        for b in range(N - 1, -1, -1):
            idx = z3.If(at[b], wv(b), idx)
        chain.append((z3.And(alive, stop), idx))
        found.append(z3.And(alive, stop))
        for b in range(N):
            deff[b].append(z3.And(alive, z3.Not(stop), at[b]))
        nxt = z3.BitVecVal(0, 64)
        for b in range(N - 1, -1, -1):
            nxt = z3.If(at[b], bv(mem[b][0]), nxt)
        alive = z3.And(alive, z3.Not(stop))
        d = nxt
    ok.append(("def.reaches_frontier", z3.Or(*found)))
    for c, idx in reversed(chain):
        Fp = z3.If(c, idx, Fp)
    g.F = Fp
    g.deff = [z3.Or(*deff[b]) for b in range(N)]
    g.used = [z3.And(z3.Not(g.lin[b]), z3.Not(g.deff[b]), z3.ULT(wv(b), g.F)) for b in range(N)]
    for b in range(N):
        ok.append((f"state.exclusive[{b}]", z3.Not(z3.And(g.lin[b], g.deff[b]))))
        ok.append((f"state.below_frontier[{b}]", z3.Implies(z3.Or(g.lin[b], g.deff[b]), z3.ULT(wv(b), g.F))))
        ok.append((f"fresh.zero[{b}]", z3.Implies(z3.ULE(g.F, wv(b)), z3.And(*[bv(mem[b][w]) == 0 for w in range(8)]))))
    ok.append(("frontier.in_universe", z3.ULE(g.F, wv(N - 1))))
    ok.append(("frontier.monotone", z3.ULE(F_pre, g.F)))
    g.nLIN = bsum(g.lin, W)
    g.nDEF = bsum(g.deff, W)
    g.ok = ok
    return g


# ---------------------------------------------------------------- object layout (representation relation)

def chain_layout(kinds):
    """Where the fields of an object with argument kinds `kinds` live: a list of blocks (head first),
    each a list of 3 entries: ('arg', j) | ('unused',) | ('link',).  Mirrors store_fields/load_fields:
    the last block holds the last <= 3 arguments right-aligned, every other block up to 2 and the link."""
    n = len(kinds)
    if n == 0:
        return []
    blocks = []
    rest = list(range(n))
    last = rest[-3:]
    rest = rest[:-3]
    blk = [('unused',)] * (3 - len(last)) + [('arg', j) for j in last]
    blocks.append(blk)
    while rest:
        cur = rest[-2:]
        rest = rest[:-2]
        blk = [('unused',)] * (2 - len(cur)) + [('arg', j) for j in cur] + [('link',)]
        blocks.append(blk)
    blocks.reverse()
    return blocks


def layout_bits(kinds, blk):
    out = []
    for e in blk:
        if e[0] == 'arg':
            out.append(L_EXT if kinds[e[1]] == 'ext' else L_PTR)
        elif e[0] == 'link':
            out.append(L_LINK)
        else:
            out.append(L_EXT)
    return out


def chain_typing(env, mem, g, ptr, kinds):
    """typing fact: `ptr` is the head of an object with argument kinds `kinds` (pre-state ghosts)"""
    N = env.N
    blocks = chain_layout(kinds)
    if not blocks:
        return [bv(ptr) == 0], []
    cs = []
    ptrs = []
    p = ptr
    for j, blk in enumerate(blocks):
        bits = layout_bits(kinds, blk)
        at = [bv(p) == bv(env.baddr(b)) for b in range(N)]
        cs.append(z3.Or(*at))
        for b in range(N):
            cs.append(z3.Implies(at[b], z3.And(*[g.lay[b][f] == bits[f] for f in range(3)])))
        ptrs.append(p)
        if j + 1 < len(blocks):
            p = select_word(env, p, mem, 6)
    return cs, ptrs
